pub mod dump;
pub mod gram;
pub mod pool;
pub mod real;
pub mod refs;
pub mod report;

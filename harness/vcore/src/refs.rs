//! Reference models: textbook grammar analyses, brute-force language enumeration, an Earley
//! recogniser and a canonical LR(1) construction + parser. None of this calls grmtools.

use crate::gram::{RefGrammar, Sym};
use std::collections::{BTreeMap, BTreeSet, HashMap};

pub type TokSet = u128; // bit t = token t; bit `ntoks` = end of input

#[derive(Clone, Debug)]
pub struct Analysis {
    pub nullable: Vec<bool>,
    pub productive: Vec<bool>,
    /// reach[a][b]: a =>+ ... b ... (b occurs in some production reachable in >= 1 step)
    pub reach: Vec<Vec<bool>>,
    pub first: Vec<TokSet>,
    /// FOLLOW over tokens plus EOF (bit ntoks); the start rule's follow contains EOF.
    pub follow: Vec<TokSet>,
    /// A =>+ A
    pub cyclic: Vec<bool>,
    pub reachable_from_start: Vec<bool>,
}

pub fn analyse(g: &RefGrammar) -> Analysis {
    let n = g.nrules();
    let mut nullable = vec![false; n];
    loop {
        let mut ch = false;
        for r in 0..n {
            if nullable[r] {
                continue;
            }
            if g.rules[r].iter().any(|p| {
                p.iter().all(|s| match s {
                    Sym::R(x) => nullable[*x],
                    Sym::T(_) => false,
                })
            }) {
                nullable[r] = true;
                ch = true;
            }
        }
        if !ch {
            break;
        }
    }
    let mut productive = vec![false; n];
    loop {
        let mut ch = false;
        for r in 0..n {
            if productive[r] {
                continue;
            }
            if g.rules[r].iter().any(|p| {
                p.iter().all(|s| match s {
                    Sym::R(x) => productive[*x],
                    Sym::T(_) => true,
                })
            }) {
                productive[r] = true;
                ch = true;
            }
        }
        if !ch {
            break;
        }
    }
    // reachability through productions (syntactic: any occurrence in any production)
    let mut reach = vec![vec![false; n]; n];
    for r in 0..n {
        for p in &g.rules[r] {
            for s in p {
                if let Sym::R(x) = s {
                    reach[r][*x] = true;
                }
            }
        }
    }
    for k in 0..n {
        for i in 0..n {
            for j in 0..n {
                if reach[i][k] && reach[k][j] {
                    reach[i][j] = true;
                }
            }
        }
    }
    let mut first = vec![0u128; n];
    loop {
        let mut ch = false;
        for r in 0..n {
            let mut f = first[r];
            for p in &g.rules[r] {
                for s in p {
                    match s {
                        Sym::T(t) => {
                            f |= 1 << t;
                            break;
                        }
                        Sym::R(x) => {
                            f |= first[*x];
                            if !nullable[*x] {
                                break;
                            }
                        }
                    }
                }
            }
            if f != first[r] {
                first[r] = f;
                ch = true;
            }
        }
        if !ch {
            break;
        }
    }
    let eof = 1u128 << g.ntoks;
    let mut follow = vec![0u128; n];
    follow[0] |= eof;
    loop {
        let mut ch = false;
        for r in 0..n {
            for p in &g.rules[r] {
                for (i, s) in p.iter().enumerate() {
                    if let Sym::R(x) = s {
                        let mut f = follow[*x];
                        let mut all_nullable = true;
                        for s2 in &p[i + 1..] {
                            match s2 {
                                Sym::T(t) => {
                                    f |= 1 << t;
                                    all_nullable = false;
                                    break;
                                }
                                Sym::R(y) => {
                                    f |= first[*y];
                                    if !nullable[*y] {
                                        all_nullable = false;
                                        break;
                                    }
                                }
                            }
                        }
                        if all_nullable {
                            f |= follow[r];
                        }
                        if f != follow[*x] {
                            follow[*x] = f;
                            ch = true;
                        }
                    }
                }
            }
        }
        if !ch {
            break;
        }
    }
    // derivation cycles A =>+ A: unit-derivation graph (A -> B if A: α B β with α, β nullable)
    let mut unit = vec![vec![false; n]; n];
    for r in 0..n {
        for p in &g.rules[r] {
            for (i, s) in p.iter().enumerate() {
                if let Sym::R(x) = s {
                    let others_nullable = p.iter().enumerate().all(|(j, s2)| {
                        j == i
                            || match s2 {
                                Sym::R(y) => nullable[*y],
                                Sym::T(_) => false,
                            }
                    });
                    if others_nullable {
                        unit[r][*x] = true;
                    }
                }
            }
        }
    }
    for k in 0..n {
        for i in 0..n {
            for j in 0..n {
                if unit[i][k] && unit[k][j] {
                    unit[i][j] = true;
                }
            }
        }
    }
    let cyclic = (0..n).map(|r| unit[r][r]).collect();
    let mut rs = vec![false; n];
    rs[0] = true;
    for r in 0..n {
        if reach[0][r] {
            rs[r] = true;
        }
    }
    Analysis {
        nullable,
        productive,
        reach,
        first,
        follow,
        cyclic,
        reachable_from_start: rs,
    }
}

impl Analysis {
    pub fn all_productive(&self) -> bool {
        self.productive.iter().all(|x| *x)
    }
    pub fn all_reachable(&self) -> bool {
        self.reachable_from_start.iter().all(|x| *x)
    }
    pub fn any_cyclic(&self) -> bool {
        self.cyclic.iter().any(|x| *x)
    }
}

// ------------------------------------------------------------------------------------------------
// Brute force: bounded languages by fixed point on sets of strings
// ------------------------------------------------------------------------------------------------

pub type Word = Vec<u8>;

fn concat_bounded(a: &BTreeSet<Word>, b: &BTreeSet<Word>, n: usize) -> BTreeSet<Word> {
    let mut out = BTreeSet::new();
    for x in a {
        for y in b {
            if x.len() + y.len() <= n {
                let mut z = x.clone();
                z.extend_from_slice(y);
                out.insert(z);
            }
        }
    }
    out
}

/// `L_n(A)` for every rule: all derivable token strings of length `<= n`.
pub fn bounded_languages(g: &RefGrammar, n: usize) -> Vec<BTreeSet<Word>> {
    let nr = g.nrules();
    let mut lang: Vec<BTreeSet<Word>> = vec![BTreeSet::new(); nr];
    loop {
        let mut ch = false;
        for r in 0..nr {
            for p in &g.rules[r] {
                let mut acc: BTreeSet<Word> = BTreeSet::new();
                acc.insert(vec![]);
                for s in p {
                    let part: BTreeSet<Word> = match s {
                        Sym::T(t) => [vec![*t as u8]].into_iter().collect(),
                        Sym::R(x) => lang[*x].clone(),
                    };
                    acc = concat_bounded(&acc, &part, n);
                    if acc.is_empty() {
                        break;
                    }
                }
                for w in acc {
                    if lang[r].insert(w) {
                        ch = true;
                    }
                }
            }
        }
        if !ch {
            break;
        }
    }
    lang
}

/// All viable prefixes (prefixes of sentences of the start rule) of length `<= n`, by brute force:
/// Pref(X1..Xk) = ∪_i L(X1..X_{i-1}) · Pref(X_i), provided X_{i+1}..X_k are all productive.
pub fn bounded_prefixes(g: &RefGrammar, n: usize) -> BTreeSet<Word> {
    let an = analyse(g);
    let lang = bounded_languages(g, n);
    let nr = g.nrules();
    let mut pref: Vec<BTreeSet<Word>> = vec![BTreeSet::new(); nr];
    loop {
        let mut ch = false;
        for r in 0..nr {
            if !an.productive[r] {
                continue;
            }
            for p in &g.rules[r] {
                // production must be productive as a whole
                if !p.iter().all(|s| match s {
                    Sym::R(x) => an.productive[*x],
                    Sym::T(_) => true,
                }) {
                    continue;
                }
                let mut before: BTreeSet<Word> = BTreeSet::new();
                before.insert(vec![]);
                let mut newp: BTreeSet<Word> = BTreeSet::new();
                newp.insert(vec![]); // the empty prefix
                for s in p {
                    let (pp, ll): (BTreeSet<Word>, BTreeSet<Word>) = match s {
                        Sym::T(t) => {
                            let w = vec![*t as u8];
                            ([vec![], w.clone()].into_iter().collect(), [w].into_iter().collect())
                        }
                        Sym::R(x) => (pref[*x].clone(), lang[*x].clone()),
                    };
                    for w in concat_bounded(&before, &pp, n) {
                        newp.insert(w);
                    }
                    before = concat_bounded(&before, &ll, n);
                    if before.is_empty() {
                        break;
                    }
                }
                for w in newp {
                    if pref[r].insert(w) {
                        ch = true;
                    }
                }
            }
        }
        if !ch {
            break;
        }
    }
    pref[0].clone()
}

// ------------------------------------------------------------------------------------------------
// Earley recogniser (on the productive-pruned grammar so that "non-empty item set" = viable prefix)
// ------------------------------------------------------------------------------------------------

pub struct Earley {
    /// productions of the pruned grammar: (rule, rhs)
    prods: Vec<(usize, Vec<Sym>)>,
    by_rule: Vec<Vec<usize>>,
    start: usize,
    start_productive: bool,
}

impl Earley {
    pub fn new(g: &RefGrammar) -> Self {
        Self::with_start(g, 0)
    }

    pub fn with_start(g: &RefGrammar, start: usize) -> Self {
        let an = analyse(g);
        let mut prods = vec![];
        let mut by_rule = vec![vec![]; g.nrules()];
        for (r, ps) in g.rules.iter().enumerate() {
            for p in ps {
                let ok = p.iter().all(|s| match s {
                    Sym::R(x) => an.productive[*x],
                    Sym::T(_) => true,
                });
                if ok {
                    by_rule[r].push(prods.len());
                    prods.push((r, p.clone()));
                }
            }
        }
        Earley {
            prods,
            by_rule,
            start,
            start_productive: an.productive[start],
        }
    }

    /// Returns (accepted, viable): `viable[k]` says whether `w[..k]` is a prefix of some sentence
    /// (k in 0..=len).
    pub fn run(&self, w: &[usize]) -> (bool, Vec<bool>) {
        let n = w.len();
        let mut viable = vec![false; n + 1];
        if !self.start_productive {
            return (false, viable);
        }
        // item = (prod, dot, origin)
        let mut sets: Vec<BTreeSet<(usize, usize, usize)>> = vec![BTreeSet::new(); n + 1];
        for &p in &self.by_rule[self.start] {
            sets[0].insert((p, 0, 0));
        }
        let mut accepted = false;
        for k in 0..=n {
            // closure by naive fixed point (handles nullable rules without special cases)
            loop {
                let mut add = vec![];
                for &(p, dot, org) in &sets[k] {
                    let rhs = &self.prods[p].1;
                    if dot < rhs.len() {
                        if let Sym::R(x) = rhs[dot] {
                            for &q in &self.by_rule[x] {
                                add.push((q, 0, k));
                            }
                        }
                    } else {
                        let lhs = self.prods[p].0;
                        for &(p2, d2, o2) in &sets[org] {
                            let rhs2 = &self.prods[p2].1;
                            if d2 < rhs2.len() && rhs2[d2] == Sym::R(lhs) {
                                add.push((p2, d2 + 1, o2));
                            }
                        }
                    }
                }
                let before = sets[k].len();
                for a in add {
                    sets[k].insert(a);
                }
                if sets[k].len() == before {
                    break;
                }
            }
            viable[k] = !sets[k].is_empty();
            if !viable[k] {
                break;
            }
            if k == n {
                accepted = sets[k].iter().any(|&(p, dot, org)| {
                    org == 0 && self.prods[p].0 == self.start && dot == self.prods[p].1.len()
                });
            } else {
                let mut next = BTreeSet::new();
                for &(p, dot, org) in &sets[k] {
                    let rhs = &self.prods[p].1;
                    if dot < rhs.len() && rhs[dot] == Sym::T(w[k]) {
                        next.insert((p, dot + 1, org));
                    }
                }
                sets[k + 1] = next;
            }
        }
        (accepted, viable)
    }

    pub fn accepts(&self, w: &[usize]) -> bool {
        self.run(w).0
    }
}

// ------------------------------------------------------------------------------------------------
// Parse trees
// ------------------------------------------------------------------------------------------------

#[derive(Clone, PartialEq, Eq, Debug, Hash)]
pub enum Tree {
    /// token id, index of the lexeme in the (possibly repaired) input
    Leaf { tok: usize, lex: usize },
    Node { rule: usize, kids: Vec<Tree> },
}

impl Tree {
    pub fn frontier(&self, out: &mut Vec<(usize, usize)>) {
        match self {
            Tree::Leaf { tok, lex } => out.push((*tok, *lex)),
            Tree::Node { kids, .. } => {
                for k in kids {
                    k.frontier(out)
                }
            }
        }
    }

    pub fn short(&self) -> String {
        match self {
            Tree::Leaf { tok, .. } => format!("t{}", tok),
            Tree::Node { rule, kids } => {
                let ks: Vec<String> = kids.iter().map(|k| k.short()).collect();
                format!("R{}({})", rule, ks.join(" "))
            }
        }
    }

    /// Is this a valid derivation tree of `g` (every node's children spell one production)?
    pub fn valid_for(&self, g: &RefGrammar) -> bool {
        match self {
            Tree::Leaf { tok, .. } => *tok < g.ntoks,
            Tree::Node { rule, kids } => {
                if *rule >= g.nrules() {
                    return false;
                }
                let spelled: Vec<Sym> = kids
                    .iter()
                    .map(|k| match k {
                        Tree::Leaf { tok, .. } => Sym::T(*tok),
                        Tree::Node { rule, .. } => Sym::R(*rule),
                    })
                    .collect();
                g.rules[*rule].contains(&spelled) && kids.iter().all(|k| k.valid_for(g))
            }
        }
    }
}

// ------------------------------------------------------------------------------------------------
// Canonical LR(1)
// ------------------------------------------------------------------------------------------------

/// item: (flat production index, dot, lookahead) where production `nprods` is the augmented
/// `^: R0` and lookahead `ntoks` is EOF.
type Item = (usize, usize, usize);

#[derive(Clone, Copy, PartialEq, Eq, Debug)]
pub enum LrAct {
    Shift(usize),
    Reduce(usize),
    Accept,
}

pub struct Lr1 {
    pub nstates: usize,
    /// flat productions: (rule, rhs); the last one is the augmented production (rule = usize::MAX)
    pub prods: Vec<(usize, Vec<Sym>)>,
    /// per state: token (incl. EOF = ntoks) -> set of possible actions (more than one = conflict)
    pub actions: Vec<BTreeMap<usize, Vec<LrAct>>>,
    pub gotos: Vec<BTreeMap<usize, usize>>,
    pub conflicts: usize,
    pub ntoks: usize,
}

pub const AUG: usize = usize::MAX;

impl Lr1 {
    pub fn build(g: &RefGrammar) -> Lr1 {
        let an = analyse(g);
        let mut prods: Vec<(usize, Vec<Sym>)> = vec![];
        let mut by_rule: Vec<Vec<usize>> = vec![vec![]; g.nrules()];
        for (r, ps) in g.rules.iter().enumerate() {
            for p in ps {
                by_rule[r].push(prods.len());
                prods.push((r, p.clone()));
            }
        }
        let augp = prods.len();
        prods.push((AUG, vec![Sym::R(0)]));
        let eof = g.ntoks;

        let first_of_seq = |seq: &[Sym], la: usize| -> Vec<usize> {
            let mut out: BTreeSet<usize> = BTreeSet::new();
            let mut all_nullable = true;
            for s in seq {
                match s {
                    Sym::T(t) => {
                        out.insert(*t);
                        all_nullable = false;
                        break;
                    }
                    Sym::R(x) => {
                        for t in 0..g.ntoks {
                            if an.first[*x] & (1 << t) != 0 {
                                out.insert(t);
                            }
                        }
                        if !an.nullable[*x] {
                            all_nullable = false;
                            break;
                        }
                    }
                }
            }
            if all_nullable {
                out.insert(la);
            }
            out.into_iter().collect()
        };

        let closure = |kernel: &BTreeSet<Item>| -> BTreeSet<Item> {
            let mut set = kernel.clone();
            let mut todo: Vec<Item> = kernel.iter().cloned().collect();
            while let Some((p, dot, la)) = todo.pop() {
                let rhs = &prods[p].1;
                if dot < rhs.len() {
                    if let Sym::R(x) = rhs[dot] {
                        for b in first_of_seq(&rhs[dot + 1..], la) {
                            for &q in &by_rule[x] {
                                if set.insert((q, 0, b)) {
                                    todo.push((q, 0, b));
                                }
                            }
                        }
                    }
                }
            }
            set
        };

        let mut kernels: Vec<BTreeSet<Item>> = vec![];
        let mut index: HashMap<BTreeSet<Item>, usize> = HashMap::new();
        let k0: BTreeSet<Item> = [(augp, 0, eof)].into_iter().collect();
        index.insert(k0.clone(), 0);
        kernels.push(k0);
        let mut actions: Vec<BTreeMap<usize, Vec<LrAct>>> = vec![];
        let mut gotos: Vec<BTreeMap<usize, usize>> = vec![];
        let mut i = 0;
        while i < kernels.len() {
            let closed = closure(&kernels[i]);
            let mut by_sym: BTreeMap<Sym, BTreeSet<Item>> = BTreeMap::new();
            let mut acts: BTreeMap<usize, Vec<LrAct>> = BTreeMap::new();
            for &(p, dot, la) in &closed {
                let rhs = &prods[p].1;
                if dot < rhs.len() {
                    by_sym.entry(rhs[dot]).or_default().insert((p, dot + 1, la));
                } else {
                    let a = if p == augp { LrAct::Accept } else { LrAct::Reduce(p) };
                    let e = acts.entry(la).or_default();
                    if !e.contains(&a) {
                        e.push(a);
                    }
                }
            }
            let mut gt = BTreeMap::new();
            for (sym, kern) in by_sym {
                let tgt = match index.get(&kern) {
                    Some(t) => *t,
                    None => {
                        let t = kernels.len();
                        index.insert(kern.clone(), t);
                        kernels.push(kern);
                        t
                    }
                };
                match sym {
                    Sym::T(t) => {
                        let e = acts.entry(t).or_default();
                        e.push(LrAct::Shift(tgt));
                    }
                    Sym::R(r) => {
                        gt.insert(r, tgt);
                    }
                }
            }
            actions.push(acts);
            gotos.push(gt);
            i += 1;
        }
        let conflicts = actions
            .iter()
            .map(|m| m.values().filter(|v| v.len() > 1).count())
            .sum();
        Lr1 {
            nstates: kernels.len(),
            prods,
            actions,
            gotos,
            conflicts,
            ntoks: g.ntoks,
        }
    }

    /// Parse with the (conflict-free) canonical table. Ok(tree) or Err(index of the offending
    /// lexeme; `w.len()` = end of input).
    pub fn parse(&self, w: &[usize]) -> Result<Tree, usize> {
        assert_eq!(self.conflicts, 0);
        let mut st = vec![0usize];
        let mut trees: Vec<Tree> = vec![];
        let mut i = 0;
        loop {
            let la = if i < w.len() { w[i] } else { self.ntoks };
            let s = *st.last().unwrap();
            match self.actions[s].get(&la).map(|v| v[0]) {
                None => return Err(i),
                Some(LrAct::Shift(t)) => {
                    st.push(t);
                    trees.push(Tree::Leaf { tok: la, lex: i });
                    i += 1;
                }
                Some(LrAct::Reduce(p)) => {
                    let (rule, rhs) = &self.prods[p];
                    let n = rhs.len();
                    let kids = trees.split_off(trees.len() - n);
                    st.truncate(st.len() - n);
                    let top = *st.last().unwrap();
                    st.push(self.gotos[top][rule]);
                    trees.push(Tree::Node { rule: *rule, kids });
                }
                Some(LrAct::Accept) => {
                    return Ok(trees.pop().unwrap());
                }
            }
        }
    }
}

// ------------------------------------------------------------------------------------------------
// Dumb second oracle for the analyses: all sentential forms of bounded length
// ------------------------------------------------------------------------------------------------

/// All sentential forms derivable from rule `start` (in >= 0 steps) whose length never exceeds
/// `maxlen` on the way.
pub fn sentential_forms(g: &RefGrammar, start: usize, maxlen: usize) -> BTreeSet<Vec<Sym>> {
    let mut seen: BTreeSet<Vec<Sym>> = BTreeSet::new();
    let mut todo = vec![vec![Sym::R(start)]];
    seen.insert(todo[0].clone());
    while let Some(f) = todo.pop() {
        for (i, s) in f.iter().enumerate() {
            if let Sym::R(r) = s {
                for p in &g.rules[*r] {
                    if f.len() - 1 + p.len() > maxlen {
                        continue;
                    }
                    let mut n = f[..i].to_vec();
                    n.extend_from_slice(p);
                    n.extend_from_slice(&f[i + 1..]);
                    if seen.insert(n.clone()) {
                        todo.push(n);
                    }
                }
            }
        }
    }
    seen
}

/// Lower bounds of (nullable, first, follow) read off the bounded sentential forms (textbook
/// definitions over sentential forms).
pub fn brute_analysis(g: &RefGrammar, maxlen: usize) -> (Vec<bool>, Vec<TokSet>, Vec<TokSet>) {
    let n = g.nrules();
    let mut nullable = vec![false; n];
    let mut first = vec![0u128; n];
    let mut follow = vec![0u128; n];
    for r in 0..n {
        for f in sentential_forms(g, r, maxlen) {
            if f.is_empty() {
                nullable[r] = true;
            }
            if let Some(Sym::T(t)) = f.first() {
                first[r] |= 1 << t;
            }
        }
    }
    let eof = 1u128 << g.ntoks;
    for f in sentential_forms(g, 0, maxlen) {
        for (i, s) in f.iter().enumerate() {
            if let Sym::R(r) = s {
                match f.get(i + 1) {
                    None => follow[*r] |= eof,
                    Some(Sym::T(t)) => follow[*r] |= 1 << t,
                    Some(Sym::R(_)) => {}
                }
            }
        }
    }
    (nullable, first, follow)
}

/// Inputs derived from the sentences of `g`: every sentence of the start rule of length <= `maxlen`
/// (the length bound is lowered until at most `cap` sentences remain), each of its prefixes, and
/// each single-token substitution, deletion and insertion over `alpha`. Used for grammars whose
/// alphabet is too large for "every string up to length n" to reach the interesting sentences.
pub fn sentence_neighbourhood(g: &RefGrammar, alpha: &[usize], maxlen: usize, cap: usize) -> Vec<Vec<usize>> {
    let mut len = maxlen;
    let sents: Vec<Vec<usize>> = loop {
        let l = bounded_languages(g, len);
        if l[0].len() <= cap || len <= 1 {
            break l[0].iter().map(|w| w.iter().map(|t| *t as usize).collect()).collect();
        }
        len -= 1;
    };
    let mut out: BTreeSet<Vec<usize>> = BTreeSet::new();
    for s in &sents {
        for k in 0..=s.len() {
            out.insert(s[..k].to_vec());
        }
        for i in 0..s.len() {
            let mut d = s.clone();
            d.remove(i);
            out.insert(d);
            for &t in alpha {
                let mut x = s.clone();
                x[i] = t;
                out.insert(x);
            }
        }
        for i in 0..=s.len() {
            for &t in alpha {
                let mut x = s.clone();
                x.insert(i, t);
                out.insert(x);
            }
        }
    }
    out.into_iter().collect()
}

//! Watched worker pool: cases that may hang, overflow the stack or exhaust memory are executed in
//! child processes (same binary, `--worker <name>`), one line in / one line out per case, with a
//! per-case wall limit and an address-space limit. A child that dies or times out is killed and
//! replaced; the case is reported as `Crash` / `Timeout` and never silently dropped.

use std::io::{BufRead, BufReader, Write};
use std::process::{Child, Command, Stdio};
use std::sync::atomic::{AtomicUsize, Ordering};
use std::sync::mpsc::{Receiver, RecvTimeoutError, channel};
use std::sync::{Arc, Mutex};
use std::time::{Duration, Instant};

#[derive(Clone, Debug, PartialEq, Eq)]
pub enum WOut {
    Ok(String),
    /// child exited / was killed by a signal while working on this case
    Crash(String),
    Timeout,
}

struct Worker {
    child: Child,
    rx: Receiver<String>,
}

fn spawn_worker(name: &str, extra: &[String], mem_mb: u64) -> Worker {
    let exe = std::env::current_exe().expect("current_exe");
    let mut cmd = Command::new(exe);
    cmd.arg("--worker").arg(name);
    for a in extra {
        cmd.arg(a);
    }
    cmd.env("VERIF_WORKER_MEM_MB", mem_mb.to_string());
    cmd.stdin(Stdio::piped()).stdout(Stdio::piped()).stderr(Stdio::null());
    let mut child = cmd.spawn().expect("cannot spawn worker");
    let out = child.stdout.take().unwrap();
    let (tx, rx) = channel();
    std::thread::spawn(move || {
        let r = BufReader::new(out);
        for line in r.lines() {
            match line {
                Ok(l) => {
                    if tx.send(l).is_err() {
                        break;
                    }
                }
                Err(_) => break,
            }
        }
    });
    Worker { child, rx }
}

/// Run every case through the pool; results are returned in case order.
pub fn run_pool(
    name: &str,
    extra: &[String],
    cases: &[String],
    nworkers: usize,
    timeout: Duration,
    mem_mb: u64,
) -> Vec<WOut> {
    run_pool_progress(name, extra, cases, nworkers, timeout, mem_mb).0
}

/// As `run_pool`, also returning for every crashed / timed-out case the last progress mark
/// (a line starting with '#') the worker had printed.
pub fn run_pool_progress(
    name: &str,
    extra: &[String],
    cases: &[String],
    nworkers: usize,
    timeout: Duration,
    mem_mb: u64,
) -> (Vec<WOut>, Vec<Option<String>>) {
    let last_progress: Arc<Mutex<Vec<Option<String>>>> = Arc::new(Mutex::new(vec![None; cases.len()]));
    let results: Arc<Mutex<Vec<Option<WOut>>>> = Arc::new(Mutex::new(vec![None; cases.len()]));
    let next = Arc::new(AtomicUsize::new(0));
    std::thread::scope(|s| {
        for _ in 0..nworkers.min(cases.len().max(1)) {
            let results = results.clone();
            let next = next.clone();
            let last_progress = last_progress.clone();
            s.spawn(move || {
                let mut w = spawn_worker(name, extra, mem_mb);
                loop {
                    let i = next.fetch_add(1, Ordering::SeqCst);
                    if i >= cases.len() {
                        break;
                    }
                    debug_assert!(!cases[i].contains('\n'));
                    let res = {
                        let stdin = w.child.stdin.as_mut().unwrap();
                        let wr = stdin
                            .write_all(cases[i].as_bytes())
                            .and_then(|_| stdin.write_all(b"\n"))
                            .and_then(|_| stdin.flush());
                        if wr.is_err() {
                            WOut::Crash("write to worker failed".into())
                        } else {
                            // lines starting with '#' are progress marks: they restart the limit
                            // (which is therefore a per-step limit) and are remembered so that a
                            // crash can be attributed to the step that was running
                            let mut progress: Option<String> = None;
                            loop {
                                match w.rx.recv_timeout(timeout) {
                                    Ok(l) if l.starts_with('#') => progress = Some(l[1..].to_string()),
                                    Ok(l) => break WOut::Ok(l),
                                    Err(RecvTimeoutError::Timeout) => {
                                        last_progress.lock().unwrap()[i] = progress;
                                        break WOut::Timeout;
                                    }
                                    Err(RecvTimeoutError::Disconnected) => {
                                        let st = w.child.wait().ok();
                                        last_progress.lock().unwrap()[i] = progress;
                                        break WOut::Crash(format!("{:?}", st));
                                    }
                                }
                            }
                        }
                    };
                    if !matches!(res, WOut::Ok(_)) {
                        w.child.kill().ok();
                        w.child.wait().ok();
                        w = spawn_worker(name, extra, mem_mb);
                    }
                    results.lock().unwrap()[i] = Some(res);
                }
                drop(w.child.stdin.take());
                w.child.kill().ok();
                w.child.wait().ok();
            });
        }
    });
    let r = results.lock().unwrap();
    let p = last_progress.lock().unwrap();
    (r.iter().map(|x| x.clone().unwrap()).collect(), p.clone())
}

/// Print a progress mark from inside a worker.
pub fn progress(mark: &str) {
    let stdout = std::io::stdout();
    let mut o = stdout.lock();
    let _ = o.write_all(b"#");
    let _ = o.write_all(mark.as_bytes());
    let _ = o.write_all(b"\n");
    let _ = o.flush();
}

/// Child side: apply the address-space limit, then answer one line per input line.
pub fn worker_main<F: Fn(&str) -> String>(f: F) {
    if let Ok(mb) = std::env::var("VERIF_WORKER_MEM_MB") {
        if let Ok(mb) = mb.parse::<u64>() {
            if mb > 0 {
                let lim = libc::rlimit {
                    rlim_cur: mb * 1024 * 1024,
                    rlim_max: mb * 1024 * 1024,
                };
                unsafe {
                    libc::setrlimit(libc::RLIMIT_AS, &lim);
                }
            }
        }
    }
    crate::report::quiet_panics();
    let stdin = std::io::stdin();
    let stdout = std::io::stdout();
    let mut line = String::new();
    loop {
        line.clear();
        match stdin.lock().read_line(&mut line) {
            Ok(0) | Err(_) => break,
            Ok(_) => {}
        }
        let l = line.trim_end_matches('\n');
        let out = f(l);
        debug_assert!(!out.contains('\n'));
        let mut o = stdout.lock();
        if o.write_all(out.as_bytes()).is_err() || o.write_all(b"\n").is_err() || o.flush().is_err()
        {
            break;
        }
    }
}

/// Confirm a timeout in isolation: run the single case alone with a longer limit.
pub fn confirm_alone(name: &str, extra: &[String], case: &str, limit: Duration, mem_mb: u64) -> WOut {
    let t0 = Instant::now();
    let r = run_pool(name, extra, &[case.to_string()], 1, limit, mem_mb);
    let _ = t0;
    r.into_iter().next().unwrap()
}

//! Watched worker pool: cases that may hang, overflow the stack or exhaust memory are executed in
//! child processes (same binary, `--worker <name>`), one line in / one line out per case, with a
//! per-case wall limit and an address-space limit. A child that dies or times out is killed and
//! replaced; the case is reported as `Crash` / `Timeout` and never silently dropped.

use std::io::{BufRead, BufReader, Write};
use std::process::{Child, Command, Stdio};
use std::sync::atomic::{AtomicUsize, Ordering};
use std::sync::mpsc::{Receiver, RecvTimeoutError, channel};
use std::sync::{Arc, Mutex};
use std::time::{Duration, Instant};

#[derive(Clone, Debug, PartialEq, Eq)]
pub enum WOut {
    Ok(String),
    /// child exited / was killed by a signal while working on this case
    Crash(String),
    Timeout,
}

struct Worker {
    child: Child,
    rx: Receiver<String>,
}

fn spawn_worker(name: &str, extra: &[String], mem_mb: u64) -> Worker {
    let exe = std::env::current_exe().expect("current_exe");
    let mut cmd = Command::new(exe);
    cmd.arg("--worker").arg(name);
    for a in extra {
        cmd.arg(a);
    }
    cmd.env("VERIF_WORKER_MEM_MB", mem_mb.to_string());
    cmd.stdin(Stdio::piped()).stdout(Stdio::piped()).stderr(Stdio::null());
    let mut child = cmd.spawn().expect("cannot spawn worker");
    let out = child.stdout.take().unwrap();
    let (tx, rx) = channel();
    std::thread::spawn(move || {
        let r = BufReader::new(out);
        for line in r.lines() {
            match line {
                Ok(l) => {
                    if tx.send(l).is_err() {
                        break;
                    }
                }
                Err(_) => break,
            }
        }
    });
    Worker { child, rx }
}

/// Run every case through the pool; results are returned in case order.
pub fn run_pool(
    name: &str,
    extra: &[String],
    cases: &[String],
    nworkers: usize,
    timeout: Duration,
    mem_mb: u64,
) -> Vec<WOut> {
    run_pool_progress(name, extra, cases, nworkers, timeout, mem_mb).0
}

/// As `run_pool`, also returning for every crashed / timed-out case the last progress mark
/// (a line starting with '#') the worker had printed.
pub fn run_pool_progress(
    name: &str,
    extra: &[String],
    cases: &[String],
    nworkers: usize,
    timeout: Duration,
    mem_mb: u64,
) -> (Vec<WOut>, Vec<Option<String>>) {
    let last_progress: Arc<Mutex<Vec<Option<String>>>> = Arc::new(Mutex::new(vec![None; cases.len()]));
    let results: Arc<Mutex<Vec<Option<WOut>>>> = Arc::new(Mutex::new(vec![None; cases.len()]));
    let next = Arc::new(AtomicUsize::new(0));
    std::thread::scope(|s| {
        for _ in 0..nworkers.min(cases.len().max(1)) {
            let results = results.clone();
            let next = next.clone();
            let last_progress = last_progress.clone();
            s.spawn(move || {
                let mut w = spawn_worker(name, extra, mem_mb);
                loop {
                    let i = next.fetch_add(1, Ordering::SeqCst);
                    if i >= cases.len() {
                        break;
                    }
                    debug_assert!(!cases[i].contains('\n'));
                    let res = {
                        let stdin = w.child.stdin.as_mut().unwrap();
                        let wr = stdin
                            .write_all(cases[i].as_bytes())
                            .and_then(|_| stdin.write_all(b"\n"))
                            .and_then(|_| stdin.flush());
                        if wr.is_err() {
                            WOut::Crash("write to worker failed".into())
                        } else {
                            // lines starting with '#' are progress marks: they restart the limit
                            // (which is therefore a per-step limit) and are remembered so that a
                            // crash can be attributed to the step that was running
                            let mut progress: Option<String> = None;
                            loop {
                                match w.rx.recv_timeout(timeout) {
                                    Ok(l) if l.starts_with('#') => progress = Some(l[1..].to_string()),
                                    Ok(l) => break WOut::Ok(l),
                                    Err(RecvTimeoutError::Timeout) => {
                                        last_progress.lock().unwrap()[i] = progress;
                                        break WOut::Timeout;
                                    }
                                    Err(RecvTimeoutError::Disconnected) => {
                                        let st = w.child.wait().ok();
                                        last_progress.lock().unwrap()[i] = progress;
                                        break WOut::Crash(format!("{:?}", st));
                                    }
                                }
                            }
                        }
                    };
                    if !matches!(res, WOut::Ok(_)) {
                        w.child.kill().ok();
                        w.child.wait().ok();
                        w = spawn_worker(name, extra, mem_mb);
                    }
                    results.lock().unwrap()[i] = Some(res);
                }
                drop(w.child.stdin.take());
                w.child.kill().ok();
                w.child.wait().ok();
            });
        }
    });
    let r = results.lock().unwrap();
    let p = last_progress.lock().unwrap();
    (r.iter().map(|x| x.clone().unwrap()).collect(), p.clone())
}

/// Print a progress mark from inside a worker.
pub fn progress(mark: &str) {
    let stdout = std::io::stdout();
    let mut o = stdout.lock();
    let _ = o.write_all(b"#");
    let _ = o.write_all(mark.as_bytes());
    let _ = o.write_all(b"\n");
    let _ = o.flush();
}

/// Child side: apply the address-space limit, then answer one line per input line.
pub fn worker_main<F: Fn(&str) -> String>(f: F) {
    if let Ok(mb) = std::env::var("VERIF_WORKER_MEM_MB") {
        if let Ok(mb) = mb.parse::<u64>() {
            if mb > 0 {
                let lim = libc::rlimit {
                    rlim_cur: mb * 1024 * 1024,
                    rlim_max: mb * 1024 * 1024,
                };
                unsafe {
                    libc::setrlimit(libc::RLIMIT_AS, &lim);
                }
            }
        }
    }
    crate::report::quiet_panics();
    let stdin = std::io::stdin();
    let stdout = std::io::stdout();
    let mut line = String::new();
    loop {
        line.clear();
        match stdin.lock().read_line(&mut line) {
            Ok(0) | Err(_) => break,
            Ok(_) => {}
        }
        let l = line.trim_end_matches('\n');
        let out = f(l);
        debug_assert!(!out.contains('\n'));
        let mut o = stdout.lock();
        if o.write_all(out.as_bytes()).is_err() || o.write_all(b"\n").is_err() || o.flush().is_err()
        {
            break;
        }
    }
}

/// Confirm a timeout in isolation: run the single case alone with a longer limit.
pub fn confirm_alone(name: &str, extra: &[String], case: &str, limit: Duration, mem_mb: u64) -> WOut {
    let t0 = Instant::now();
    let r = run_pool(name, extra, &[case.to_string()], 1, limit, mem_mb);
    let _ = t0;
    r.into_iter().next().unwrap()
}

pub const MAX_CULPRITS: usize = 48;

/// Resumable batches. Each case is a JSON object describing `lens[k]` items; the worker must honour
/// the integer fields "from" / "to", print `progress(idx)` before working on item `idx`, and answer
/// one line for the segment. When a worker dies or exceeds the per-item limit, the item named by
/// its last progress mark is recorded as culprit and the rest of the batch is resubmitted (the
/// prefix is re-run to recover its output: workers are deterministic).
/// Returns per case: the outputs of all completed segments, and the culprits (item index, reason).
pub fn run_resumable(
    name: &str,
    cases: &[serde_json::Value],
    lens: &[usize],
    nworkers: usize,
    timeout: Duration,
    mem_mb: u64,
) -> Result<Vec<(Vec<String>, Vec<(usize, WOut)>)>, String> {
    let mut out: Vec<(Vec<String>, Vec<(usize, WOut)>)> = vec![(vec![], vec![]); cases.len()];
    let mut pending: Vec<(usize, usize, usize)> = (0..cases.len()).filter(|k| lens[*k] > 0).map(|k| (k, 0, lens[k])).collect();
    let mut rounds = 0;
    while !pending.is_empty() {
        rounds += 1;
        if rounds > 2000 {
            return Err("too many resubmission rounds".into());
        }
        // Enough culprits to fail the check: do not spend hours on the rest (the caller reports
        // the exploration as cut short; a run with culprits never passes anyway).
        let culprits: usize = out.iter().map(|o| o.1.len()).sum();
        if culprits >= MAX_CULPRITS {
            break;
        }
        let lines: Vec<String> = pending
            .iter()
            .map(|(k, from, to)| {
                let mut c = cases[*k].clone();
                c["from"] = serde_json::json!(from);
                c["to"] = serde_json::json!(to);
                c.to_string()
            })
            .collect();
        let (res, prog) = run_pool_progress(name, &[], &lines, nworkers, timeout, mem_mb);
        let mut next = vec![];
        for (i, r) in res.into_iter().enumerate() {
            let (k, from, to) = pending[i];
            match r {
                WOut::Ok(l) => out[k].0.push(l),
                other => {
                    let Some(mark) = prog[i].as_ref().and_then(|p| p.parse::<usize>().ok()) else {
                        return Err(format!("worker died outside an item ({:?}) on case {}", other, cases[k]));
                    };
                    if mark < from || mark >= to {
                        return Err(format!("progress mark {} outside [{}, {})", mark, from, to));
                    }
                    out[k].1.push((mark, other));
                    if mark > from {
                        next.push((k, from, mark));
                    }
                    if mark + 1 < to {
                        next.push((k, mark + 1, to));
                    }
                }
            }
        }
        pending = next;
    }
    Ok(out)
}

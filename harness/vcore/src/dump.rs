//! The complete public query dump of a grammar, its state table and (optionally) its state graph,
//! as text. Used by C14 (serialisation round trip), C15 (determinism) and C20 (storage widths).
//! Everything is rendered through names and plain numbers so that dumps taken with different
//! storage types are comparable.

use crate::real::Storage;
use cfgrammar::yacc::YaccGrammar;
use cfgrammar::{PIdx, RIdx, Symbol, TIdx};
use lrtable::{Action, StIdx, StateGraph, StateTable};
use num_traits::AsPrimitive;
use std::fmt::Write;

pub fn dump_grammar<T: Storage>(grm: &YaccGrammar<T>) -> String
where
    usize: AsPrimitive<T>,
{
    let mut o = String::new();
    let nr = usize::from(grm.rules_len());
    let nt = usize::from(grm.tokens_len());
    let np = usize::from(grm.prods_len());
    writeln!(o, "rules {} tokens {} prods {} start_prod {} start_rule {} eof {} implicit_rule {:?}", nr, nt, np, usize::from(grm.start_prod()), usize::from(grm.start_rule_idx()), usize::from(grm.eof_token_idx()), grm.implicit_rule().map(usize::from)).ok();
    let sym = |s: &Symbol<T>| match s {
        Symbol::Rule(r) => format!("R{}", usize::from(*r)),
        Symbol::Token(t) => format!("T{}", usize::from(*t)),
    };
    for r in 0..nr {
        let ridx: RIdx<T> = RIdx(r.as_());
        let sp = grm.rule_name_span(ridx);
        writeln!(
            o,
            "rule {} name {:?} span {}..{} prods {:?} actiontype {:?} idx {:?}",
            r,
            grm.rule_name_str(ridx),
            sp.start(),
            sp.end(),
            grm.rule_to_prods(ridx).iter().map(|p| usize::from(*p)).collect::<Vec<_>>(),
            grm.actiontype(ridx),
            grm.rule_idx(grm.rule_name_str(ridx)).map(usize::from)
        )
        .ok();
    }
    for t in 0..nt {
        let tidx: TIdx<T> = TIdx(t.as_());
        writeln!(
            o,
            "token {} name {:?} span {:?} prec {:?} epp {:?} avoid_insert {} idx {:?}",
            t,
            grm.token_name(tidx),
            grm.token_span(tidx).map(|s| (s.start(), s.end())),
            grm.token_precedence(tidx).map(|p| (p.level, format!("{:?}", p.kind))),
            grm.token_epp(tidx),
            grm.avoid_insert(tidx),
            grm.token_name(tidx).and_then(|n| grm.token_idx(n)).map(usize::from)
        )
        .ok();
    }
    for p in 0..np {
        let pidx: PIdx<T> = PIdx(p.as_());
        let sp = grm.prod_span(pidx);
        writeln!(
            o,
            "prod {} rule {} len {} syms [{}] prec {:?} span {}..{} action {:?} action_span {:?} pp {:?}",
            p,
            usize::from(grm.prod_to_rule(pidx)),
            usize::from(grm.prod_len(pidx)),
            grm.prod(pidx).iter().map(|s| sym(s)).collect::<Vec<_>>().join(" "),
            grm.prod_precedence(pidx).map(|p| (p.level, format!("{:?}", p.kind))),
            sp.start(),
            sp.end(),
            grm.action(pidx),
            grm.action_span(pidx).map(|s| (s.start(), s.end())),
            grm.pp_prod(pidx)
        )
        .ok();
    }
    writeln!(o, "parse_param {:?} parse_generics {:?} programs {:?} expect {:?} expectrr {:?}", grm.parse_param(), grm.parse_generics(), grm.programs(), grm.expect(), grm.expectrr()).ok();
    let mut tm: Vec<(String, usize)> = grm.tokens_map().into_iter().map(|(k, v)| (k.to_string(), usize::from(v))).collect();
    tm.sort();
    writeln!(o, "tokens_map {:?}", tm).ok();
    let mut hp = String::new();
    // quadratic: only for grammars of ordinary size
    for a in 0..nr.min(300) {
        for b in 0..nr.min(300) {
            hp.push(if grm.has_path(RIdx(a.as_()), RIdx(b.as_())) { '1' } else { '0' });
        }
    }
    writeln!(o, "has_path {}", hp).ok();
    o
}

/// `nstates` must be supplied (the table does not expose it). `conflicts_sorted`: render the
/// conflict lists sorted (their order is unspecified across runs) or as listed.
pub fn dump_table<T: Storage>(grm: &YaccGrammar<T>, st: &StateTable<T>, nstates: usize, conflicts_sorted: bool) -> String
where
    usize: AsPrimitive<T>,
{
    let id: Vec<usize> = (0..nstates).collect();
    dump_table_perm(grm, st, conflicts_sorted, &id, &id)
}

/// Canonical state numbering: breadth-first from the start state, edges in symbol order.
/// Returns (order: new -> old, inv: old -> new).
pub fn canonical_order<T: Storage>(sg: &StateGraph<T>) -> (Vec<usize>, Vec<usize>)
where
    usize: AsPrimitive<T>,
{
    let n = usize::from(sg.all_states_len());
    let mut inv = vec![usize::MAX; n];
    let mut order = vec![];
    let s0 = usize::from(sg.start_state());
    inv[s0] = 0;
    order.push(s0);
    let mut i = 0;
    while i < order.len() {
        let q = order[i];
        let mut es: Vec<(u8, usize, usize)> = sg
            .edges(StIdx(q.as_()))
            .iter()
            .map(|(s, t)| match s {
                Symbol::Rule(r) => (0u8, usize::from(*r), usize::from(*t)),
                Symbol::Token(k) => (1u8, usize::from(*k), usize::from(*t)),
            })
            .collect();
        es.sort();
        for (_, _, t) in es {
            if t < n && inv[t] == usize::MAX {
                inv[t] = order.len();
                order.push(t);
            }
        }
        i += 1;
    }
    // unreachable states (should not exist) keep their relative order at the end
    for q in 0..n {
        if inv[q] == usize::MAX {
            inv[q] = order.len();
            order.push(q);
        }
    }
    (order, inv)
}

/// As `dump_table`, with states listed in `order` (new -> old) and every state number rendered
/// through `inv` (old -> new).
pub fn dump_table_perm<T: Storage>(grm: &YaccGrammar<T>, st: &StateTable<T>, conflicts_sorted: bool, order: &[usize], inv: &[usize]) -> String
where
    usize: AsPrimitive<T>,
{
    let nstates = order.len();
    let act = |a: Action<T>| match a {
        Action::Shift(s) => format!("s{}", inv.get(usize::from(s)).cloned().unwrap_or(usize::MAX)),
        Action::Reduce(p) => format!("r{}", usize::from(p)),
        Action::Accept => "acc".into(),
        Action::Error => ".".into(),
    };
    let mut o = String::new();
    let nt = usize::from(grm.tokens_len());
    let nr = usize::from(grm.rules_len());
    writeln!(o, "start_state {}", inv[usize::from(st.start_state())]).ok();
    for q in 0..nstates {
        let qi: StIdx<T> = StIdx(order[q].as_());
        let acts: Vec<String> = (0..nt).map(|t| act(st.action(qi, TIdx(t.as_())))).collect();
        let gotos: Vec<String> = (0..nr).map(|r| st.goto(qi, RIdx(r.as_())).map(|s| inv[usize::from(s)].to_string()).unwrap_or("-".into())).collect();
        writeln!(
            o,
            "state {} actions [{}] gotos [{}] state_actions {:?} state_shifts {:?} core_reduces {:?} reduce_only {}",
            q,
            acts.join(" "),
            gotos.join(" "),
            st.state_actions(qi).map(usize::from).collect::<Vec<_>>(),
            st.state_shifts(qi).map(usize::from).collect::<Vec<_>>(),
            st.core_reduces(qi).map(usize::from).collect::<Vec<_>>(),
            st.reduce_only_state(qi)
        )
        .ok();
    }
    match st.conflicts() {
        None => {
            writeln!(o, "conflicts none").ok();
        }
        Some(c) => {
            let mut sr: Vec<(usize, usize, usize)> = c.sr_conflicts().map(|(t, p, s)| (usize::from(*t), usize::from(*p), inv[usize::from(*s)])).collect();
            let mut rr: Vec<(usize, usize, usize, usize)> = c.rr_conflicts().map(|(t, p1, p2, s)| (usize::from(*t), usize::from(*p1), usize::from(*p2), inv[usize::from(*s)])).collect();
            if conflicts_sorted {
                // canonical form: order is unspecified, and so is the earlier candidate a losing
                // reduction is listed against when more than two reductions compete
                sr.sort();
                for x in rr.iter_mut() {
                    x.1 = 0;
                }
                rr.sort();
            }
            writeln!(o, "conflicts sr {} {:?} rr {} {:?}", c.sr_len(), sr, c.rr_len(), rr).ok();
            if !conflicts_sorted {
                writeln!(o, "pp_sr {:?} pp_rr {:?}", c.pp_sr(grm), c.pp_rr(grm)).ok();
            }
        }
    }
    o
}

pub fn dump_graph<T: Storage>(sg: &StateGraph<T>) -> String
where
    usize: AsPrimitive<T>,
{
    let id: Vec<usize> = (0..usize::from(sg.all_states_len())).collect();
    dump_graph_perm(sg, &id, &id)
}

pub fn dump_graph_perm<T: Storage>(sg: &StateGraph<T>, order: &[usize], inv: &[usize]) -> String
where
    usize: AsPrimitive<T>,
{
    let mut o = String::new();
    let n = usize::from(sg.all_states_len());
    writeln!(o, "graph states {} start {} edges {}", n, inv[usize::from(sg.start_state())], sg.all_edges_len()).ok();
    for q in 0..n {
        let qi: StIdx<T> = StIdx(order[q].as_());
        let mut edges: Vec<(String, usize)> = sg
            .edges(qi)
            .iter()
            .map(|(s, t)| {
                (
                    match s {
                        Symbol::Rule(r) => format!("R{}", usize::from(*r)),
                        Symbol::Token(t) => format!("T{}", usize::from(*t)),
                    },
                    inv[usize::from(*t)],
                )
            })
            .collect();
        edges.sort();
        writeln!(o, "gstate {} core {:?} closed {:?} edges {:?}", q, items(&sg.core_state(qi).items), items(&sg.closed_state(qi).items), edges).ok();
    }
    o
}

type ItemMap<T> = std::collections::HashMap<(PIdx<T>, cfgrammar::SIdx<T>), vob::Vob, std::hash::BuildHasherDefault<fnv::FnvHasher>>;

fn items<T: Storage>(m: &ItemMap<T>) -> Vec<(usize, usize, Vec<usize>)>
where
    usize: AsPrimitive<T>,
{
    let mut v: Vec<(usize, usize, Vec<usize>)> = m.iter().map(|((p, d), ctx)| (usize::from(*p), usize::from(*d), ctx.iter_set_bits(..).collect())).collect();
    v.sort();
    v
}

//! Abstract reference grammars, the bounded grammar universes, and the `.y` printer.
//!
//! Nothing in this file calls grmtools: a `RefGrammar` is the ground truth that every grmtools
//! answer is compared against; grmtools only ever sees the *printed* form.

use std::collections::BTreeSet;
use std::fmt::Write;

#[derive(Clone, Copy, PartialEq, Eq, Hash, Debug, PartialOrd, Ord)]
pub enum Sym {
    R(usize),
    T(usize),
}

#[derive(Clone, Copy, PartialEq, Eq, Hash, Debug, PartialOrd, Ord)]
pub enum Assoc {
    Left,
    Right,
    Nonassoc,
}

/// An abstract grammar. Rule 0 is the (user) start rule. Tokens are `0..ntoks`.
#[derive(Clone, PartialEq, Eq, Hash, Debug, PartialOrd, Ord)]
pub struct RefGrammar {
    pub ntoks: usize,
    /// rules -> ordered productions -> symbols
    pub rules: Vec<Vec<Vec<Sym>>>,
    /// precedence declaration lines in source order: level = index of the line
    pub precs: Vec<(Assoc, Vec<usize>)>,
    /// `%prec tok` overrides: (rule, production index in rule, token)
    pub prod_prec: Vec<(usize, usize, usize)>,
    /// `%avoid_insert` set
    pub avoid_insert: Vec<usize>,
    /// tokens with an `%epp 'tok' "pretty tok"` declaration (display only: nothing but
    /// `token_epp` may depend on it)
    pub epp: Vec<usize>,
    /// Optional custom names (otherwise R<i> / t<i>)
    pub rule_names: Option<Vec<String>>,
    pub tok_names: Option<Vec<String>>,
}

impl RefGrammar {
    pub fn new(ntoks: usize, rules: Vec<Vec<Vec<Sym>>>) -> Self {
        RefGrammar {
            ntoks,
            rules,
            precs: vec![],
            prod_prec: vec![],
            avoid_insert: vec![],
            epp: vec![],
            rule_names: None,
            tok_names: None,
        }
    }

    pub fn nrules(&self) -> usize {
        self.rules.len()
    }

    pub fn rule_name(&self, r: usize) -> String {
        match &self.rule_names {
            Some(n) => n[r].clone(),
            None => format!("R{}", r),
        }
    }

    pub fn tok_name(&self, t: usize) -> String {
        match &self.tok_names {
            Some(n) => n[t].clone(),
            None => format!("t{}", t),
        }
    }

    pub fn nprods(&self) -> usize {
        self.rules.iter().map(|r| r.len()).sum()
    }

    pub fn nsyms(&self) -> usize {
        self.rules.iter().flatten().map(|p| p.len()).sum()
    }

    pub fn max_rhs(&self) -> usize {
        self.rules.iter().flatten().map(|p| p.len()).max().unwrap_or(0)
    }

    /// Flat list of productions `(rule, index in rule)` in source order.
    pub fn flat_prods(&self) -> Vec<(usize, usize)> {
        let mut v = vec![];
        for (r, ps) in self.rules.iter().enumerate() {
            for i in 0..ps.len() {
                v.push((r, i));
            }
        }
        v
    }

    /// Token precedence by the *generator's* model: level = index of the declaration line.
    pub fn tok_prec(&self, t: usize) -> Option<(usize, Assoc)> {
        for (lvl, (a, ts)) in self.precs.iter().enumerate() {
            if ts.contains(&t) {
                return Some((lvl, *a));
            }
        }
        None
    }

    /// Production precedence: that of its `%prec` token, else of its last token.
    pub fn prod_prec_of(&self, r: usize, i: usize) -> Option<(usize, Assoc)> {
        for &(pr, pi, t) in &self.prod_prec {
            if pr == r && pi == i {
                return self.tok_prec(t);
            }
        }
        for s in self.rules[r][i].iter().rev() {
            if let Sym::T(t) = s {
                return self.tok_prec(*t);
            }
        }
        None
    }

    /// Print as a Yacc grammar (default layout): tokens quoted with single quotes.
    pub fn to_yacc(&self) -> String {
        let mut s = String::new();
        writeln!(s, "%start {}", self.rule_name(0)).ok();
        // tokens that no production mentions still belong to the grammar: declare them
        let mut used = vec![false; self.ntoks];
        for p in self.rules.iter().flatten() {
            for sym in p {
                if let Sym::T(t) = sym {
                    used[*t] = true;
                }
            }
        }
        if used.iter().any(|u| !*u) {
            write!(s, "%token").ok();
            for t in (0..self.ntoks).filter(|t| !used[*t]) {
                write!(s, " '{}'", self.tok_name(t)).ok();
            }
            writeln!(s).ok();
        }
        if !self.avoid_insert.is_empty() {
            write!(s, "%avoid_insert").ok();
            for t in &self.avoid_insert {
                write!(s, " '{}'", self.tok_name(*t)).ok();
            }
            writeln!(s).ok();
        }
        for t in &self.epp {
            writeln!(s, "%epp '{}' \"pretty {}\"", self.tok_name(*t), self.tok_name(*t)).ok();
        }
        for (a, ts) in &self.precs {
            let kw = match a {
                Assoc::Left => "%left",
                Assoc::Right => "%right",
                Assoc::Nonassoc => "%nonassoc",
            };
            write!(s, "{}", kw).ok();
            for t in ts {
                write!(s, " '{}'", self.tok_name(*t)).ok();
            }
            writeln!(s).ok();
        }
        writeln!(s, "%%").ok();
        for (r, ps) in self.rules.iter().enumerate() {
            write!(s, "{}:", self.rule_name(r)).ok();
            for (i, p) in ps.iter().enumerate() {
                if i > 0 {
                    write!(s, " |").ok();
                }
                for sym in p {
                    match sym {
                        Sym::R(x) => write!(s, " {}", self.rule_name(*x)).ok(),
                        Sym::T(x) => write!(s, " '{}'", self.tok_name(*x)).ok(),
                    };
                }
                for &(pr, pi, t) in &self.prod_prec {
                    if pr == r && pi == i {
                        write!(s, " %prec '{}'", self.tok_name(t)).ok();
                    }
                }
            }
            writeln!(s, " ;").ok();
        }
        s
    }

    /// Compact one-line rendering used in evidence samples and replay files.
    pub fn short(&self) -> String {
        let mut s = String::new();
        if !self.epp.is_empty() {
            write!(s, "epp{:?} ", self.epp).ok();
        }
        for (a, ts) in &self.precs {
            write!(s, "{:?}{:?} ", a, ts).ok();
        }
        for (r, ps) in self.rules.iter().enumerate() {
            write!(s, "{}:", self.rule_name(r)).ok();
            for (i, p) in ps.iter().enumerate() {
                if i > 0 {
                    write!(s, " |").ok();
                }
                for sym in p {
                    match sym {
                        Sym::R(x) => write!(s, " {}", self.rule_name(*x)).ok(),
                        Sym::T(x) => write!(s, " '{}'", self.tok_name(*x)).ok(),
                    };
                }
                for &(pr, pi, t) in &self.prod_prec {
                    if pr == r && pi == i {
                        write!(s, " %prec '{}'", self.tok_name(t)).ok();
                    }
                }
            }
            write!(s, "; ").ok();
        }
        s.trim_end().to_string()
    }
}

/// Parameters of a bounded universe `U(R,T,P,L,K)`.
#[derive(Clone, Copy, Debug)]
pub struct Universe {
    pub max_rules: usize,
    pub max_toks: usize,
    pub max_prods: usize,
    pub max_rhs: usize,
    pub max_syms: usize,
}

impl Universe {
    pub fn new(r: usize, t: usize, p: usize, l: usize, k: usize) -> Self {
        Universe {
            max_rules: r,
            max_toks: t,
            max_prods: p,
            max_rhs: l,
            max_syms: k,
        }
    }

    pub fn name(&self) -> String {
        format!(
            "U({},{},{},{},{})",
            self.max_rules, self.max_toks, self.max_prods, self.max_rhs, self.max_syms
        )
    }

    /// Enumerate every grammar of the universe exactly once up to renaming: while scanning the
    /// grammar text rule by rule, rule `k>0` may only be referenced after rules `1..k` have been
    /// (restricted growth), and likewise for tokens. Rules that are never referenced form a
    /// suffix. Productions inside a rule are pairwise distinct; their order *is* significant.
    pub fn enumerate(&self) -> Vec<RefGrammar> {
        let mut out = Vec::new();
        for nr in 1..=self.max_rules {
            let mut st = EnumState {
                u: *self,
                nr,
                rules: vec![vec![]],
                maxrule: 0,
                ntoks: 0,
                nsyms: 0,
                out: &mut out,
            };
            st.rule_prods();
        }
        out.sort_by_key(|g| (g.nsyms(), g.nrules(), g.nprods(), g.ntoks));
        out
    }
}

struct EnumState<'a> {
    u: Universe,
    nr: usize,
    rules: Vec<Vec<Vec<Sym>>>,
    maxrule: usize,
    ntoks: usize,
    nsyms: usize,
    out: &'a mut Vec<RefGrammar>,
}

impl EnumState<'_> {
    /// We are positioned in the last rule of `self.rules`, choosing whether to add a production.
    fn rule_prods(&mut self) {
        let cur = self.rules.len() - 1;
        // Option 1: close this rule (needs >= 1 production) and move to the next rule / finish
        if !self.rules[cur].is_empty() {
            if self.rules.len() == self.nr {
                self.out.push(RefGrammar::new(self.ntoks, self.rules.clone()));
            } else {
                self.rules.push(vec![]);
                self.rule_prods();
                self.rules.pop();
            }
        }
        // Option 2: add another production
        if self.rules[cur].len() < self.u.max_prods {
            self.rules[cur].push(vec![]);
            self.prod_syms();
            self.rules[cur].pop();
        }
    }

    /// We are extending the last production of the last rule.
    fn prod_syms(&mut self) {
        let cur = self.rules.len() - 1;
        let pi = self.rules[cur].len() - 1;
        // Option 1: close this production (if distinct from earlier ones in this rule)
        {
            let p = &self.rules[cur][pi];
            if !self.rules[cur][..pi].contains(p) {
                self.rule_prods_after_prod();
            }
        }
        // Option 2: append a symbol
        if self.rules[cur][pi].len() < self.u.max_rhs && self.nsyms < self.u.max_syms {
            let max_r = (self.maxrule + 1).min(self.nr - 1);
            for r in 0..=max_r {
                let saved = self.maxrule;
                if r > self.maxrule {
                    self.maxrule = r;
                }
                self.rules[cur][pi].push(Sym::R(r));
                self.nsyms += 1;
                self.prod_syms();
                self.nsyms -= 1;
                self.rules[cur][pi].pop();
                self.maxrule = saved;
            }
            let max_t = (self.ntoks + 1).min(self.u.max_toks);
            for t in 0..max_t {
                let saved = self.ntoks;
                if t + 1 > self.ntoks {
                    self.ntoks = t + 1;
                }
                self.rules[cur][pi].push(Sym::T(t));
                self.nsyms += 1;
                self.prod_syms();
                self.nsyms -= 1;
                self.rules[cur][pi].pop();
                self.ntoks = saved;
            }
        }
    }

    fn rule_prods_after_prod(&mut self) {
        self.rule_prods();
    }
}

// ------------------------------------------------------------------------------------------------
// Structured families (shapes that need more symbols than the generic universes allow)
// ------------------------------------------------------------------------------------------------

use Sym::{R, T};

fn g(ntoks: usize, rules: Vec<Vec<Vec<Sym>>>) -> RefGrammar {
    RefGrammar::new(ntoks, rules)
}

/// F-lalr: all subsets of `S: {a,b} {A,B} {d,e}` with `A: c; B: c` (contains the classic
/// LR(1)-but-not-LALR(1) grammar and all its neighbours), and the same with `A: c | c c`.
/// Tokens: a=0 b=1 c=2 d=3 e=4. Rules: S=0 A=1 B=2.
pub fn family_lalr() -> Vec<RefGrammar> {
    let mut out = vec![];
    let mut all = vec![];
    for x in [0usize, 1] {
        for n in [1usize, 2] {
            for y in [3usize, 4] {
                all.push(vec![T(x), R(n), T(y)]);
            }
        }
    }
    for variant in 0..3 {
        for mask in 1u32..256 {
            let prods: Vec<Vec<Sym>> = (0..8)
                .filter(|i| mask & (1 << i) != 0)
                .map(|i| all[i].clone())
                .collect();
            // both A and B must be referenced to keep the grammar well-formed for from_yacc
            let uses_a = prods.iter().any(|p| p[1] == R(1));
            let uses_b = prods.iter().any(|p| p[1] == R(2));
            if !(uses_a && uses_b) {
                continue;
            }
            let a_rule = match variant {
                0 => vec![vec![T(2)]],
                1 => vec![vec![T(2)], vec![T(2), T(2)]],
                _ => vec![vec![T(2)], vec![]],
            };
            out.push(g(5, vec![prods, a_rule, vec![vec![T(2)]]]));
        }
    }
    out
}

/// F-expr: operator skeletons `E: E o E | o E | E o | ( E ) | n` over up to 3 operators.
/// Tokens: n=0, o1=1, o2=2, o3=3 (parentheses omitted: they never conflict).
pub fn family_expr() -> Vec<RefGrammar> {
    let mut out = vec![];
    // each operator is used in a subset of {binary, prefix, postfix}; at least one use
    let shapes = |o: usize, m: u32| -> Vec<Vec<Sym>> {
        let mut v = vec![];
        if m & 1 != 0 {
            v.push(vec![R(0), T(o), R(0)]);
        }
        if m & 2 != 0 {
            v.push(vec![T(o), R(0)]);
        }
        if m & 4 != 0 {
            v.push(vec![R(0), T(o)]);
        }
        v
    };
    for nops in 1..=3usize {
        let mut masks = vec![1u32; nops];
        loop {
            let mut prods = vec![];
            for (i, m) in masks.iter().enumerate() {
                prods.extend(shapes(i + 1, *m));
            }
            prods.push(vec![T(0)]);
            out.push(g(nops + 1, vec![prods]));
            // next mask vector over {1..7} restricted to a smaller menu for 3 ops
            let lim = if nops == 3 { 3 } else { 7 };
            let mut i = 0;
            loop {
                if i == nops {
                    break;
                }
                if masks[i] < lim {
                    masks[i] += 1;
                    break;
                }
                masks[i] = 1;
                i += 1;
            }
            if i == nops {
                break;
            }
        }
    }
    out
}

/// F-empty: list / optional idioms with empty productions in first / middle / last position.
pub fn family_empty() -> Vec<RefGrammar> {
    let mut out = vec![];
    // S: pre Opt post, Opt: | x  with empties in every position
    // tokens: a=0 b=1 x=2
    let opt = vec![vec![], vec![T(2)]];
    let opt2 = vec![vec![T(2)], vec![]];
    for o in [opt.clone(), opt2.clone()] {
        out.push(g(3, vec![vec![vec![R(1), T(0)]], o.clone()])); // first
        out.push(g(3, vec![vec![vec![T(0), R(1), T(1)]], o.clone()])); // middle
        out.push(g(3, vec![vec![vec![T(0), R(1)]], o.clone()])); // last
        out.push(g(3, vec![vec![vec![R(1)]], o.clone()])); // only
        out.push(g(3, vec![vec![vec![R(1), R(1)]], o.clone()])); // two in a row (conflicts)
        out.push(g(3, vec![vec![vec![R(1), T(0), R(1)]], o.clone()]));
        // nested: S: 'a' A; A: B 'x'; B: ;
        out.push(g(3, vec![vec![vec![T(0), R(1)]], vec![vec![R(2), T(2)]], vec![vec![]]]));
        // S: A 'a' ; A: B ; B: | 'x'
        out.push(g(3, vec![vec![vec![R(1), T(0)]], vec![vec![R(2)]], o.clone()]));
    }
    // left / right recursive lists with empty base
    out.push(g(2, vec![vec![vec![], vec![R(0), T(0)]]]));
    out.push(g(2, vec![vec![vec![], vec![T(0), R(0)]]]));
    out.push(g(2, vec![vec![vec![R(1)]], vec![vec![], vec![R(1), T(0), T(1)]]]));
    out.push(g(2, vec![vec![vec![R(1), T(1)]], vec![vec![], vec![R(1), T(0)]]]));
    out.push(g(2, vec![vec![vec![T(1), R(1)]], vec![vec![], vec![T(0), R(1)]]]));
    // separator list: L: | I | L ',' I ; I: 'x'
    out.push(g(2, vec![vec![vec![], vec![R(1)], vec![R(0), T(0), R(1)]], vec![vec![T(1)]]]));
    // three empties in a row
    out.push(g(
        2,
        vec![
            vec![vec![R(1), R(2), R(3), T(0)]],
            vec![vec![]],
            vec![vec![], vec![T(1)]],
            vec![vec![]],
        ],
    ));
    // empty rule between tokens twice
    out.push(g(2, vec![vec![vec![T(0), R(1), T(1), R(1), T(0)]], vec![vec![]]]));
    out
}

/// F-seeds: grammars of the repository's own tests and examples, in abstract form.
pub fn family_seeds() -> Vec<RefGrammar> {
    let mut out = vec![];
    // calc: Expr: Expr '+' Term | Term; Term: Term '*' Factor | Factor; Factor: '(' Expr ')' | INT
    // tokens: +0 *1 (2 )3 INT4
    out.push(g(
        5,
        vec![
            vec![vec![R(0), T(0), R(1)], vec![R(1)]],
            vec![vec![R(1), T(1), R(2)], vec![R(2)]],
            vec![vec![T(2), R(0), T(3)], vec![T(4)]],
        ],
    ));
    // Corchuelo: E: 'N' | E '+' 'N' | '(' E ')'   tokens N0 +1 (2 )3
    out.push(g(
        4,
        vec![vec![vec![T(0)], vec![R(0), T(1), T(0)], vec![T(2), R(0), T(3)]]],
    ));
    // KimYi-ish: S: A A ; A : 'a' A | 'b'
    out.push(g(2, vec![vec![vec![R(1), R(1)]], vec![vec![T(0), R(1)], vec![T(1)]]]));
    // Pager's example grammar (lrtable tests): X: a Y d | a Z c | a T | b Y e | b Z d | b T ;
    // Y: t W | u X ; Z: t u ; T: u X a ; W: u V ; V: <empty>
    // tokens a0 b1 c2 d3 e4 t5 u6 ; rules X0 Y1 Z2 T3 W4 V5
    out.push(g(
        7,
        vec![
            vec![
                vec![T(0), R(1), T(3)],
                vec![T(0), R(2), T(2)],
                vec![T(0), R(3)],
                vec![T(1), R(1), T(4)],
                vec![T(1), R(2), T(3)],
                vec![T(1), R(3)],
            ],
            vec![vec![T(5), R(4)], vec![T(6), R(0)]],
            vec![vec![T(5), T(6)]],
            vec![vec![T(6), R(0), T(0)]],
            vec![vec![T(6), R(5)]],
            vec![vec![]],
        ],
    ));
    // dangling else: S: 'if' S | 'if' S 'else' S | 'x'   tokens if0 else1 x2
    out.push(g(
        3,
        vec![vec![vec![T(0), R(0)], vec![T(0), R(0), T(1), R(0)], vec![T(2)]]],
    ));
    // ambiguous expr: E: E '+' E | E '*' E | 'n'
    out.push(g(
        3,
        vec![vec![vec![R(0), T(0), R(0)], vec![R(0), T(1), R(0)], vec![T(2)]]],
    ));
    // dragon book grammar 4.55: S: C C ; C: 'c' C | 'd'
    out.push(g(2, vec![vec![vec![R(1), R(1)]], vec![vec![T(0), R(1)], vec![T(1)]]]));
    // dragon L/R: S: L '=' R | R ; L: '*' R | 'id' ; R: L    tokens =0 *1 id2
    out.push(g(
        3,
        vec![
            vec![vec![R(1), T(0), R(2)], vec![R(2)]],
            vec![vec![T(1), R(2)], vec![T(2)]],
            vec![vec![R(1)]],
        ],
    ));
    out
}

/// The complete edit-distance-1 neighbourhood of a grammar (delete / duplicate-with-change a
/// production, delete / replace / insert one symbol). Grammars with dangling rule references are
/// never produced (a rule keeps at least one production).
pub fn neighbourhood(base: &RefGrammar) -> Vec<RefGrammar> {
    let mut set: BTreeSet<RefGrammar> = BTreeSet::new();
    let nr = base.nrules();
    let nt = base.ntoks;
    let mut all_syms = vec![];
    for r in 0..nr {
        all_syms.push(R(r));
    }
    for t in 0..nt {
        all_syms.push(T(t));
    }
    for r in 0..nr {
        for i in 0..base.rules[r].len() {
            // delete production
            if base.rules[r].len() > 1 {
                let mut n = base.clone();
                n.rules[r].remove(i);
                set.insert(n);
            }
            let plen = base.rules[r][i].len();
            for k in 0..plen {
                // delete symbol
                let mut n = base.clone();
                n.rules[r][i].remove(k);
                set.insert(n);
                // replace symbol
                for s in &all_syms {
                    let mut n = base.clone();
                    n.rules[r][i][k] = *s;
                    set.insert(n);
                }
            }
            for k in 0..=plen {
                for s in &all_syms {
                    let mut n = base.clone();
                    n.rules[r][i].insert(k, *s);
                    set.insert(n);
                }
            }
        }
    }
    set.remove(base);
    // drop grammars with duplicate productions in a rule (would only add a warning-free duplicate)
    set.into_iter()
        .filter(|g| {
            g.rules.iter().all(|ps| {
                let s: BTreeSet<_> = ps.iter().collect();
                s.len() == ps.len()
            })
        })
        .collect()
}

/// All token strings over `0..ntoks` of length `<= n`, shortest first.
pub fn all_inputs(ntoks: usize, n: usize) -> Vec<Vec<usize>> {
    let mut out = vec![vec![]];
    let mut layer = vec![vec![]];
    for _ in 0..n {
        let mut next = vec![];
        for w in &layer {
            for t in 0..ntoks {
                let mut w2: Vec<usize> = w.clone();
                w2.push(t);
                next.push(w2);
            }
        }
        out.extend(next.iter().cloned());
        layer = next;
    }
    out
}

// ------------------------------------------------------------------------------------------------
// JSON encoding (replay files, worker protocol): rule r -> r, token t -> -(t+1)
// ------------------------------------------------------------------------------------------------

impl RefGrammar {
    pub fn to_json(&self) -> serde_json::Value {
        let rules: Vec<Vec<Vec<i64>>> = self
            .rules
            .iter()
            .map(|ps| {
                ps.iter()
                    .map(|p| {
                        p.iter()
                            .map(|s| match s {
                                Sym::R(r) => *r as i64,
                                Sym::T(t) => -(*t as i64) - 1,
                            })
                            .collect()
                    })
                    .collect()
            })
            .collect();
        let precs: Vec<(String, Vec<usize>)> = self
            .precs
            .iter()
            .map(|(a, ts)| (format!("{:?}", a), ts.clone()))
            .collect();
        serde_json::json!({
            "ntoks": self.ntoks,
            "rules": rules,
            "precs": precs,
            "prod_prec": self.prod_prec,
            "avoid_insert": self.avoid_insert,
            "epp": self.epp,
            "rule_names": self.rule_names,
            "tok_names": self.tok_names,
            "text": self.short(),
        })
    }

    pub fn from_json(v: &serde_json::Value) -> Option<RefGrammar> {
        let ntoks = v.get("ntoks")?.as_u64()? as usize;
        let mut rules = vec![];
        for ps in v.get("rules")?.as_array()? {
            let mut prods = vec![];
            for p in ps.as_array()? {
                let mut syms = vec![];
                for s in p.as_array()? {
                    let x = s.as_i64()?;
                    syms.push(if x >= 0 { Sym::R(x as usize) } else { Sym::T((-x - 1) as usize) });
                }
                prods.push(syms);
            }
            rules.push(prods);
        }
        let mut g = RefGrammar::new(ntoks, rules);
        if let Some(a) = v.get("precs").and_then(|x| x.as_array()) {
            for e in a {
                let kind = match e.get(0)?.as_str()? {
                    "Left" => Assoc::Left,
                    "Right" => Assoc::Right,
                    _ => Assoc::Nonassoc,
                };
                let ts = e.get(1)?.as_array()?.iter().filter_map(|x| x.as_u64()).map(|x| x as usize).collect();
                g.precs.push((kind, ts));
            }
        }
        if let Some(a) = v.get("prod_prec").and_then(|x| x.as_array()) {
            for e in a {
                g.prod_prec.push((
                    e.get(0)?.as_u64()? as usize,
                    e.get(1)?.as_u64()? as usize,
                    e.get(2)?.as_u64()? as usize,
                ));
            }
        }
        if let Some(a) = v.get("avoid_insert").and_then(|x| x.as_array()) {
            g.avoid_insert = a.iter().filter_map(|x| x.as_u64()).map(|x| x as usize).collect();
        }
        if let Some(a) = v.get("epp").and_then(|x| x.as_array()) {
            g.epp = a.iter().filter_map(|x| x.as_u64()).map(|x| x as usize).collect();
        }
        if let Some(a) = v.get("rule_names").and_then(|x| x.as_array()) {
            g.rule_names = Some(a.iter().filter_map(|x| x.as_str()).map(|x| x.to_string()).collect());
        }
        if let Some(a) = v.get("tok_names").and_then(|x| x.as_array()) {
            g.tok_names = Some(a.iter().filter_map(|x| x.as_str()).map(|x| x.to_string()).collect());
        }
        Some(g)
    }
}

// ------------------------------------------------------------------------------------------------
// Precedence configurations
// ------------------------------------------------------------------------------------------------

/// All precedence declarations with at most `max_lines` lines over tokens `0..ntoks`: each line
/// is an associativity and a non-empty token set, lines pairwise disjoint (a token declared twice
/// is a grammar error). The empty declaration comes first.
pub fn prec_configs(ntoks: usize, max_lines: usize) -> Vec<Vec<(Assoc, Vec<usize>)>> {
    let assocs = [Assoc::Left, Assoc::Right, Assoc::Nonassoc];
    let mut out: Vec<Vec<(Assoc, Vec<usize>)>> = vec![vec![]];
    let mut layer: Vec<(Vec<(Assoc, Vec<usize>)>, u32)> = vec![(vec![], 0)];
    for _ in 0..max_lines {
        let mut next = vec![];
        for (cfg, used) in &layer {
            for mask in 1u32..(1 << ntoks) {
                if mask & used != 0 {
                    continue;
                }
                let ts: Vec<usize> = (0..ntoks).filter(|t| mask & (1 << t) != 0).collect();
                for a in assocs {
                    let mut c = cfg.clone();
                    c.push((a, ts.clone()));
                    next.push((c, used | mask));
                }
            }
        }
        out.extend(next.iter().map(|(c, _)| c.clone()));
        layer = next;
    }
    out
}

impl RefGrammar {
    /// All variants of this grammar with a precedence configuration (<= `max_lines` lines) and
    /// at most one `%prec` placement (any production, any token that has a precedence).
    pub fn prec_variants(&self, max_lines: usize, with_prec_override: bool) -> Vec<RefGrammar> {
        let mut out = vec![];
        for cfg in prec_configs(self.ntoks, max_lines) {
            let mut g = self.clone();
            g.precs = cfg.clone();
            out.push(g.clone());
            if with_prec_override {
                let declared: Vec<usize> = cfg.iter().flat_map(|(_, ts)| ts.iter().cloned()).collect();
                for (r, i) in self.flat_prods() {
                    for t in &declared {
                        let mut g2 = g.clone();
                        g2.prod_prec = vec![(r, i, *t)];
                        out.push(g2);
                    }
                }
            }
        }
        out
    }
}

/// F-lalr2: all subsets of `S: {x,y} {A,B} {a,b,c}` (12 productions) with `A: z; B: z`, in source
/// order and in reversed order (which state is created first matters to the minimiser).
/// Tokens: x=0 y=1 z=2 a=3 b=4 c=5.
pub fn family_lalr2() -> Vec<RefGrammar> {
    let mut all = vec![];
    for p in [0usize, 1] {
        for n in [1usize, 2] {
            for s in [3usize, 4, 5] {
                all.push(vec![T(p), R(n), T(s)]);
            }
        }
    }
    let mut out = vec![];
    for mask in 1u32..(1 << 12) {
        let prods: Vec<Vec<Sym>> = (0..12).filter(|i| mask & (1 << i) != 0).map(|i| all[i].clone()).collect();
        if prods.len() < 3 || prods.len() > 6 {
            continue;
        }
        let uses_a = prods.iter().any(|p| p[1] == R(1));
        let uses_b = prods.iter().any(|p| p[1] == R(2));
        if !(uses_a && uses_b) {
            continue;
        }
        // tokens must be numbered densely: renumber the ones in use
        let mut used: Vec<usize> = vec![2];
        for p in &prods {
            for s in p {
                if let T(t) = s {
                    if !used.contains(t) {
                        used.push(*t);
                    }
                }
            }
        }
        used.sort();
        let ren = |p: &Vec<Sym>| -> Vec<Sym> {
            p.iter()
                .map(|s| match s {
                    T(t) => T(used.iter().position(|u| u == t).unwrap()),
                    r => *r,
                })
                .collect()
        };
        let z = used.iter().position(|u| *u == 2).unwrap();
        let ps: Vec<Vec<Sym>> = prods.iter().map(ren).collect();
        let mut rev = ps.clone();
        rev.reverse();
        for order in [ps, rev] {
            out.push(g(used.len(), vec![order, vec![vec![T(z)]], vec![vec![T(z)]]]));
        }
    }
    out
}

/// F-ternary: operator skeletons with productions that contain two tokens, so that "the last
/// token of the production" and "some token of the production" differ:
/// `E: E p E q E | E p E q | p E q E | E p E | E q E | x` over tokens p=0 q=1 x=2.
pub fn family_ternary() -> Vec<RefGrammar> {
    let menu: Vec<Vec<Sym>> = vec![
        vec![R(0), T(0), R(0), T(1), R(0)],
        vec![R(0), T(0), R(0), T(1)],
        vec![T(0), R(0), T(1), R(0)],
        vec![R(0), T(1), R(0), T(0), R(0)],
        vec![R(0), T(0), R(0)],
        vec![R(0), T(1), R(0)],
        vec![T(0), T(1), R(0)],
        vec![R(0), T(0), T(1)],
    ];
    let mut out = vec![];
    for mask in 1u32..(1 << menu.len()) {
        let mut prods: Vec<Vec<Sym>> = (0..menu.len()).filter(|i| mask & (1 << i) != 0).map(|i| menu[i].clone()).collect();
        if prods.len() > 3 {
            continue;
        }
        // both operator tokens must occur
        if !prods.iter().flatten().any(|s| *s == T(0)) || !prods.iter().flatten().any(|s| *s == T(1)) {
            continue;
        }
        prods.push(vec![T(2)]);
        out.push(g(3, vec![prods]));
    }
    out
}

/// More empty-production shapes for the span bookkeeping: an empty rule followed by a token
/// inside a production that is itself followed by more input (so that a repair can insert the
/// token at a later position than where the empty rule sits).
pub fn family_empty2() -> Vec<RefGrammar> {
    let mut out = vec![];
    // S: 'a' A 'c'; A: B 'x'; B: ;          tokens a0 c1 x2
    out.push(g(3, vec![vec![vec![T(0), R(1), T(1)]], vec![vec![R(2), T(2)]], vec![vec![]]]));
    // S: 'a' A 'c'; A: B 'x' B; B: ;
    out.push(g(3, vec![vec![vec![T(0), R(1), T(1)]], vec![vec![R(2), T(2), R(2)]], vec![vec![]]]));
    // S: 'a' A 'c' | 'a' 'c' 'c'; A: B B 'x'; B: ;
    out.push(g(3, vec![vec![vec![T(0), R(1), T(1)]], vec![vec![R(2), R(2), T(2)]], vec![vec![]]]));
    // S: A 'c'; A: B 'x'; B: ;
    out.push(g(3, vec![vec![vec![R(1), T(1)]], vec![vec![R(2), T(2)]], vec![vec![]]]));
    // S: 'a' A 'c' A; A: B 'x'; B: | 'a' 'a';
    out.push(g(3, vec![vec![vec![T(0), R(1), T(1), R(1)]], vec![vec![R(2), T(2)]], vec![vec![], vec![T(0), T(0)]]]));
    // list of such: S: | S A 'c'; A: B 'x'; B: ;
    out.push(g(3, vec![vec![vec![], vec![R(0), R(1), T(1)]], vec![vec![R(2), T(2)]], vec![vec![]]]));
    // S: 'a' A 'c'; A: 'x' B; B: ;   (empty rule last, token first)
    out.push(g(3, vec![vec![vec![T(0), R(1), T(1)]], vec![vec![T(2), R(2)]], vec![vec![]]]));
    out
}

/// F-chains: a rule that is nullable only through a chain of unit productions of depth d, used
/// as the first symbol of a production, with the chain's rules defined before / after their
/// users (fixed-point computations that stop a round too early show up here).
/// `L: | L D; D: C0 'f' 'i' | 'u' 'i'; C0: C1; ...; Cd: ;`  tokens f=0 i=1 u=2.
pub fn family_chains() -> Vec<RefGrammar> {
    let mut out = vec![];
    for d in 1..=4usize {
        for reversed in [false, true] {
            // logical rules: 0 = L, 1 = D, 2.. = chain C0..Cd
            let n = 2 + d + 1;
            // physical index of logical rule x
            let phys = |x: usize| -> usize {
                if x < 2 || !reversed { x } else { 2 + (n - 1 - x) }
            };
            let mut rules: Vec<Vec<Vec<Sym>>> = vec![vec![]; n];
            rules[phys(0)] = vec![vec![], vec![R(phys(0)), R(phys(1))]];
            rules[phys(1)] = vec![vec![R(phys(2)), T(0), T(1)], vec![T(2), T(1)]];
            for k in 0..d {
                rules[phys(2 + k)] = vec![vec![R(phys(2 + k + 1))]];
            }
            rules[phys(2 + d)] = vec![vec![]];
            out.push(g(3, rules));
            // the same with the chain in the middle of the production
            let mut rules2 = out.last().unwrap().rules.clone();
            rules2[phys(1)] = vec![vec![T(2), R(phys(2)), T(0)], vec![T(2), T(1)]];
            out.push(g(3, rules2));
        }
    }
    out
}

// ------------------------------------------------------------------------------------------------
// F-wide: small grammars moved to high token / rule indices
// ------------------------------------------------------------------------------------------------

/// `base` with `ptoks` padding tokens numbered before its own tokens and `max(prules, 1)` padding
/// rules numbered before its own rules. The first padding rule mentions every padding token in
/// order (the generator numbers tokens by first mention, so they come first); the others are
/// `Pi: 'p(i mod ptoks)'`. All padding rules are unreachable from the new start rule
/// `S: <base start>`. The language is the base grammar's; every index-keyed bit vector of the
/// generator (lookaheads, FIRST / FOLLOW, closure work lists, action rows) now has its interesting
/// bits beyond a word boundary.
pub fn padded(base: &RefGrammar, ptoks: usize, prules: usize) -> RefGrammar {
    assert!(base.rule_names.is_none() && base.tok_names.is_none());
    let prules = prules.max(1);
    let rshift = 1 + prules;
    let sh = |s: &Sym| match s {
        Sym::R(x) => Sym::R(x + rshift),
        Sym::T(t) => Sym::T(t + ptoks),
    };
    let mut rules: Vec<Vec<Vec<Sym>>> = vec![vec![vec![Sym::R(rshift)]]];
    rules.push(vec![(0..ptoks).map(Sym::T).collect()]);
    for i in 1..prules {
        rules.push(vec![if ptoks > 0 { vec![Sym::T(i % ptoks)] } else { vec![] }]);
    }
    for ps in &base.rules {
        rules.push(ps.iter().map(|p| p.iter().map(sh).collect()).collect());
    }
    let mut out = RefGrammar::new(base.ntoks + ptoks, rules);
    for (a, ts) in &base.precs {
        out.precs.push((*a, ts.iter().map(|t| t + ptoks).collect()));
    }
    out.prod_prec = base.prod_prec.iter().map(|&(r, i, t)| (r + rshift, i, t + ptoks)).collect();
    out.avoid_insert = base.avoid_insert.iter().map(|t| t + ptoks).collect();
    out.epp = base.epp.iter().map(|t| t + ptoks).collect();
    out
}

/// The tokens worth feeding to a parser for `g`: every token that occurs in a production, or - when
/// the grammar has more than 8 tokens - every token of a rule reachable from the start rule plus the
/// lowest and the highest numbered of the others (all tokens that no reachable production mentions
/// are rejected in every state; two representatives at the ends of the index range stand for them).
pub fn input_alphabet(g: &RefGrammar) -> Vec<usize> {
    if g.ntoks <= 8 {
        return (0..g.ntoks).collect();
    }
    let mut reach = vec![false; g.nrules()];
    let mut todo = vec![0usize];
    reach[0] = true;
    while let Some(r) = todo.pop() {
        for p in &g.rules[r] {
            for s in p {
                if let Sym::R(x) = s {
                    if !reach[*x] {
                        reach[*x] = true;
                        todo.push(*x);
                    }
                }
            }
        }
    }
    let mut used = vec![false; g.ntoks];
    for (r, ps) in g.rules.iter().enumerate() {
        if reach[r] {
            for p in ps {
                for s in p {
                    if let Sym::T(t) = s {
                        used[*t] = true;
                    }
                }
            }
        }
    }
    let mut out: Vec<usize> = (0..g.ntoks).filter(|t| used[*t]).collect();
    let others: Vec<usize> = (0..g.ntoks).filter(|t| !used[*t]).collect();
    if let Some(f) = others.first() {
        out.push(*f);
    }
    if others.len() > 1 {
        out.push(*others.last().unwrap());
    }
    out.sort();
    out
}

/// Every word of length <= n over `alpha`.
pub fn inputs_over(alpha: &[usize], n: usize) -> Vec<Vec<usize>> {
    all_inputs(alpha.len(), n).into_iter().map(|w| w.into_iter().map(|i| alpha[i]).collect()).collect()
}

/// F-wide: the LR(1)-not-LALR(1) seeds, operator skeletons with precedence, empty-production and
/// chain grammars, each padded so that its tokens start at index 62, 63, 64 or 127 and its rules at
/// index 2, 63, 64 or 65.
pub fn family_wide() -> Vec<RefGrammar> {
    let mut bases: Vec<RefGrammar> = vec![];
    let l = family_lalr();
    bases.extend(l.iter().rev().take(3).cloned()); // the full counter-example and its neighbours
    bases.extend(family_lalr2().into_iter().rev().take(2));
    for e in family_expr().into_iter().take(4) {
        bases.extend(e.prec_variants(2, false).into_iter().rev().take(2));
        bases.push(e);
    }
    bases.extend(family_empty().into_iter().take(4));
    bases.extend(family_empty2().into_iter().take(2));
    bases.extend(family_chains().into_iter().take(4));
    bases.extend(family_ternary().into_iter().take(2));
    let mut out = vec![];
    for b in &bases {
        for (pt, pr) in [(62usize, 0usize), (63, 62), (64, 63), (61, 64), (120, 0)] {
            if b.ntoks + pt + 1 > 127 {
                continue;
            }
            out.push(padded(b, pt, pr));
        }
    }
    // The classic LR(1)-but-not-LALR(1) grammar `S: a A d | a B e | b A e | b B d; A: c; B: c`, its
    // mirror image and the three-production neighbours of both (members of F-lalr that *are* LR(1),
    // unlike its last members above), with every position of the word boundary relative to the
    // five tokens a..e: all of them below it, it falls between each adjacent pair, all of them
    // above it, and all of them in the last, partial word of a two-word set.
    let prod = |i: usize| vec![T(i / 4), R(1 + (i / 2) % 2), T(3 + i % 2)];
    for full in [[0usize, 3, 5, 6], [1, 2, 4, 7]] {
        let mut subsets: Vec<Vec<usize>> = vec![full.to_vec()];
        for drop in 0..4 {
            subsets.push(full.iter().enumerate().filter(|(k, _)| *k != drop).map(|(_, &i)| i).collect());
        }
        for sub in subsets {
            let b = g(5, vec![sub.iter().map(|&i| prod(i)).collect(), vec![vec![T(2)]], vec![vec![T(2)]]]);
            for (pt, pr) in [(58usize, 0usize), (59, 1), (60, 2), (61, 3), (62, 4), (63, 5), (64, 6), (100, 0), (121, 0)] {
                out.push(padded(&b, pt, pr));
            }
        }
    }
    out
}

/// F-lalr3: three- and four-way context families around a two-item kernel, reached over paths of
/// different lengths. Tokens: p=0 q=1 r=2 s=3 x=4 y=5 z=6 a=7 b=8 d=9 e=10. Rules: S=0 A=1 B=2 C=3
/// with `A: x y; B: x y; C: x z`. For each of the prefixes `p`, `q`, `r r`, `s s s` the start rule
/// has either nothing, or `prefix A u | prefix B v` for one ordered pair u != v of {a,b,d,e};
/// optionally one prefix also has `prefix C` (a state with another core in between). The state after
/// `prefix x` has the kernel {A: x.y, B: x.y} with prefix-specific contexts: whether two of them
/// may share their successor depends on all pairs, and the longer prefixes are discovered after
/// the shorter ones' states were already processed (late merges, re-propagation, stranded states).
/// `small` keeps three prefixes (p, q, s s s).
pub fn family_lalr3(small: bool) -> Vec<RefGrammar> {
    family_lalr3_branches(small, false)
}

/// F-lalr3 with `A: x y | z y; B: x y | z y` (`two_branches`): the state after a prefix then has two
/// successors with two-item kernels (on x and on z), and re-processing it after a late merge can
/// split off two new states in one pass.
pub fn family_lalr3_branches(small: bool, two_branches: bool) -> Vec<RefGrammar> {
    let prefixes: Vec<Vec<Sym>> = if small {
        vec![vec![T(0)], vec![T(1)], vec![T(3), T(3), T(3)]]
    } else {
        vec![vec![T(0)], vec![T(1)], vec![T(2), T(2)], vec![T(3), T(3), T(3)]]
    };
    let suff = [7usize, 8, 9, 10];
    let mut pairs: Vec<Option<(usize, usize)>> = vec![None];
    for u in suff {
        for v in suff {
            if u != v {
                pairs.push(Some((u, v)));
            }
        }
    }
    let np = prefixes.len();
    let mut out = vec![];
    let mut idx = vec![0usize; np];
    loop {
        let used: Vec<usize> = (0..np).filter(|i| pairs[idx[*i]].is_some()).collect();
        if used.len() >= 2 {
            for c in std::iter::once(None).chain(used.iter().map(|i| Some(*i))) {
                let mut s: Vec<Vec<Sym>> = vec![];
                for &i in &used {
                    let (u, v) = pairs[idx[i]].unwrap();
                    let mut pa = prefixes[i].clone();
                    pa.extend([R(1), T(u)]);
                    let mut pb = prefixes[i].clone();
                    pb.extend([R(2), T(v)]);
                    s.push(pa);
                    s.push(pb);
                    if c == Some(i) {
                        let mut pc = prefixes[i].clone();
                        pc.push(R(3));
                        s.push(pc);
                    }
                }
                let ab = if two_branches { vec![vec![T(4), T(5)], vec![T(6), T(5)]] } else { vec![vec![T(4), T(5)]] };
                out.push(g(11, vec![s, ab.clone(), ab, vec![vec![T(4), T(6)]]]));
            }
        }
        // next index vector
        let mut k = 0;
        loop {
            if k == np {
                return out;
            }
            idx[k] += 1;
            if idx[k] < pairs.len() {
                break;
            }
            idx[k] = 0;
            k += 1;
        }
    }
}

/// F-gc: small conflict-free grammars on which Pager's construction re-points an edge after a late
/// merge and leaves a state behind that the final garbage collection has to remove (edges that
/// cross the removed state's index in both directions), each with its complete edit-distance-1
/// neighbourhood. (The shapes were found by searching grammars of 2-3 rules / 3-4 tokens for
/// tables whose construction strands a state; the universes that contain them - U(2,3,3,3,9),
/// U(3,3,3,3,8) - are too large to enumerate.)
pub fn family_gc() -> Vec<RefGrammar> {
    let bases = vec![
        // S: 'b' A | 'a' | A 'a' S; A: 'b' S 'c';          tokens a0 b1 c2
        g(3, vec![vec![vec![T(1), R(1)], vec![T(0)], vec![R(1), T(0), R(0)]], vec![vec![T(1), R(0), T(2)]]]),
        // S: 'd' 'd' 'a' | B A | A 'a'; A: B 'b' 'c' 'b'; B: 'c' | B S A;     tokens a0 b1 c2 d3
        g(
            4,
            vec![
                vec![vec![T(3), T(3), T(0)], vec![R(2), R(1)], vec![R(1), T(0)]],
                vec![vec![R(2), T(1), T(2), T(1)]],
                vec![vec![T(2)], vec![R(2), R(0), R(1)]],
            ],
        ),
        // S: 'c' B | | B A 'e'; A: ; B: 'c' S 'a';          tokens a0 c1 e2
        g(3, vec![vec![vec![T(1), R(2)], vec![], vec![R(2), R(1), T(2)]], vec![vec![]], vec![vec![T(1), R(0), T(0)]]]),
    ];
    let mut out = bases.clone();
    for b in &bases {
        out.extend(neighbourhood(b));
    }
    out
}

// ------------------------------------------------------------------------------------------------
// F-pager: stored family (see vcheck/src/genfam.rs)
// ------------------------------------------------------------------------------------------------

/// One member of F-pager with what the construction did on it when the file was generated:
/// (states created while re-processing a changed state, states removed by the garbage collection).
#[derive(Clone, Debug)]
pub struct PagerMember {
    pub g: RefGrammar,
    pub new_while_reprocessing: u64,
    pub gc_removed: u64,
}

static PAGER_FAMILY_TEXT: &str = include_str!("../data/pager_family.jsonl");

/// F-pager: every grammar of U(2,2,2,3,7), U(2,3,2,3,7), U(2,2,3,3,7), U(2,3,3,3,7), U(2,2,2,4,8),
/// U(2,3,2,4,8), U(2,2,3,4,8) and U(2,2,2,5,9) (about 110 million grammars, enumerated exhaustively by
/// `vcheck --gen-pager-family`) on which Pager's construction, as implemented, creates states while
/// re-processing a state that a weak merge changed, or ends with a garbage collection that removes
/// states - the two paths that no grammar of the plain small universes reaches. Simplest first.
pub fn family_pager() -> Vec<PagerMember> {
    PAGER_FAMILY_TEXT
        .lines()
        .filter(|l| !l.trim().is_empty())
        .map(|l| {
            let v: serde_json::Value = serde_json::from_str(l).expect("pager_family.jsonl: bad line");
            PagerMember {
                g: RefGrammar::from_json(&v["g"]).expect("pager_family.jsonl: bad grammar"),
                new_while_reprocessing: v["new_while_reprocessing"].as_u64().unwrap_or(0),
                gc_removed: v["gc_removed"].as_u64().unwrap_or(0),
            }
        })
        .collect()
}

/// F-lalr4: two-item kernels one level down, with a third party that feeds the same successor
/// states from a different kernel. Tokens: p=0 q=1 r=2 n=3 m=4 x=5 y=6 e=7 f=8 g=9 h=10 and the
/// suffixes a=11 b=12 c=13 d=14. Rules: S=0 U=1 V=2 P=3 Q=4 with `U: m P; V: m Q; P: x e | y f;
/// Q: x g | y h`. The start rule has, for each of the contexts `p`, `q q q` (reached later) and
/// `r n` (the third party, which uses P and Q directly), either nothing or `ctx U u | ctx V v`
/// (`r n P u | r n Q v`) for one ordered pair u != v of the four suffix tokens. The state after
/// `ctx m` has the kernel {U: m.P, V: m.Q}; its successors on x and on y have two-item kernels whose
/// contexts come from all three parties: a late merge into the first makes its re-processing split
/// off new states for both successors in one pass.
pub fn family_lalr4() -> Vec<RefGrammar> {
    let suff = [11usize, 12, 13, 14];
    let mut pairs: Vec<Option<(usize, usize)>> = vec![None];
    for u in suff {
        for v in suff {
            if u != v {
                pairs.push(Some((u, v)));
            }
        }
    }
    let mut out = vec![];
    for a in &pairs {
        for b in &pairs {
            for c in &pairs {
                if [a, b, c].iter().filter(|x| x.is_some()).count() < 2 {
                    continue;
                }
                let mut s: Vec<Vec<Sym>> = vec![];
                if let Some((u, v)) = a {
                    s.push(vec![T(0), R(1), T(*u)]);
                    s.push(vec![T(0), R(2), T(*v)]);
                }
                if let Some((u, v)) = b {
                    s.push(vec![T(1), T(1), T(1), R(1), T(*u)]);
                    s.push(vec![T(1), T(1), T(1), R(2), T(*v)]);
                }
                if let Some((u, v)) = c {
                    s.push(vec![T(2), T(3), R(3), T(*u)]);
                    s.push(vec![T(2), T(3), R(4), T(*v)]);
                }
                out.push(g(
                    15,
                    vec![
                        s,
                        vec![vec![T(4), R(3)]],
                        vec![vec![T(4), R(4)]],
                        vec![vec![T(5), T(7)], vec![T(6), T(8)]],
                        vec![vec![T(5), T(9)], vec![T(6), T(10)]],
                    ],
                ));
            }
        }
    }
    out
}

/// F-refgraph: rule-reference graphs on four rules. Rule i has the single production
/// `<at most two rule references, in every order> 't0'`: 21 choices per rule, 21^4 = 194,481
/// grammars. Which rules are reachable from which - and in what order a traversal meets them,
/// forwards and backwards in declaration order - is all that varies.
pub fn family_refgraph() -> Vec<RefGrammar> {
    let n = 4usize;
    let mut choices: Vec<Vec<Sym>> = vec![vec![]];
    for a in 0..n {
        choices.push(vec![R(a)]);
        for b in 0..n {
            choices.push(vec![R(a), R(b)]);
        }
    }
    let mut out = vec![];
    let mut idx = vec![0usize; n];
    loop {
        let rules: Vec<Vec<Vec<Sym>>> = idx
            .iter()
            .map(|c| {
                let mut p = choices[*c].clone();
                p.push(T(0));
                vec![p]
            })
            .collect();
        out.push(g(1, rules));
        let mut k = 0;
        loop {
            if k == n {
                return out;
            }
            idx[k] += 1;
            if idx[k] < choices.len() {
                break;
            }
            idx[k] = 0;
            k += 1;
        }
    }
}

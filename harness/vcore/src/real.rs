//! Thin adapters around the *real* grmtools pipeline: text -> YaccGrammar -> StateGraph/StateTable ->
//! RTParserBuilder, driven through a harness lexer with known lexeme positions. Everything
//! returned is converted into plain harness types so that the engines never compare grmtools
//! values with grmtools values.

use crate::gram::{RefGrammar, Sym};
use crate::refs::Tree;
use cfgrammar::yacc::{YaccGrammar, YaccKind, YaccOriginalActionKind};
use cfgrammar::{NewlineCache, PIdx, RIdx, Span, Symbol, TIdx};
use lrlex::{DefaultLexeme, DefaultLexerTypes, LRNonStreamingLexer};
use lrpar::{LexParseError, Lexeme, ParseRepair, RTParserBuilder, RecoveryKind};
use lrtable::{Minimiser, StIdx, StateGraph, StateTable, from_yacc};
use num_traits::{AsPrimitive, PrimInt, Unsigned};
use std::collections::HashMap;
use std::fmt::Debug;
use std::hash::Hash;

pub trait Storage: 'static + Debug + Hash + PrimInt + Unsigned + Send + Sync {}
impl<T: 'static + Debug + Hash + PrimInt + Unsigned + Send + Sync> Storage for T {}

pub struct Built<T: Storage>
where
    usize: AsPrimitive<T>,
{
    pub grm: YaccGrammar<T>,
    pub sg: StateGraph<T>,
    pub st: StateTable<T>,
    /// reference rule -> RIdx
    pub rmap: Vec<RIdx<T>>,
    /// reference token -> TIdx
    pub tmap: Vec<TIdx<T>>,
    pub rinv: HashMap<usize, usize>,
    pub tinv: HashMap<usize, usize>,
}

#[derive(Debug, Clone)]
pub enum BuildErr {
    Grammar(String),
    Table(String),
    Names(String),
}

pub const YK: YaccKind = YaccKind::Original(YaccOriginalActionKind::GenericParseTree);

pub fn build_grammar<T: Storage>(text: &str, yk: YaccKind) -> Result<YaccGrammar<T>, BuildErr>
where
    usize: AsPrimitive<T>,
{
    YaccGrammar::<T>::new_with_storaget(yk, text).map_err(|es| {
        BuildErr::Grammar(es.iter().map(|e| format!("{}", e)).collect::<Vec<_>>().join("; "))
    })
}

pub fn build<T: Storage>(g: &RefGrammar) -> Result<Built<T>, BuildErr>
where
    usize: AsPrimitive<T>,
{
    build_text(g, &g.to_yacc())
}

pub fn build_text<T: Storage>(g: &RefGrammar, text: &str) -> Result<Built<T>, BuildErr>
where
    usize: AsPrimitive<T>,
{
    let grm = build_grammar::<T>(text, YK)?;
    let (sg, st) =
        from_yacc(&grm, Minimiser::Pager).map_err(|e| BuildErr::Table(format!("{}", e)))?;
    finish(g, grm, sg, st)
}

pub fn finish<T: Storage>(
    g: &RefGrammar,
    grm: YaccGrammar<T>,
    sg: StateGraph<T>,
    st: StateTable<T>,
) -> Result<Built<T>, BuildErr>
where
    usize: AsPrimitive<T>,
{
    let mut rmap = vec![];
    let mut rinv = HashMap::new();
    for r in 0..g.nrules() {
        let n = g.rule_name(r);
        let ridx = grm
            .rule_idx(&n)
            .ok_or_else(|| BuildErr::Names(format!("rule {} missing", n)))?;
        rinv.insert(usize::from(ridx), r);
        rmap.push(ridx);
    }
    let mut tmap = vec![];
    let mut tinv = HashMap::new();
    for t in 0..g.ntoks {
        let n = g.tok_name(t);
        let tidx = grm
            .token_idx(&n)
            .ok_or_else(|| BuildErr::Names(format!("token {} missing", n)))?;
        tinv.insert(usize::from(tidx), t);
        tmap.push(tidx);
    }
    Ok(Built {
        grm,
        sg,
        st,
        rmap,
        tmap,
        rinv,
        tinv,
    })
}

impl<T: Storage> Built<T>
where
    usize: AsPrimitive<T>,
{
    /// Reference token index (ntoks = EOF) of a real token index.
    pub fn ref_tok(&self, tidx: TIdx<T>) -> usize {
        if tidx == self.grm.eof_token_idx() {
            self.tmap.len()
        } else {
            *self.tinv.get(&usize::from(tidx)).unwrap_or(&usize::MAX)
        }
    }

    pub fn real_tok(&self, t: usize) -> TIdx<T> {
        if t == self.tmap.len() {
            self.grm.eof_token_idx()
        } else {
            self.tmap[t]
        }
    }

    /// The real production (as reference symbols) of `pidx`; rules not in the reference map as
    /// `usize::MAX`.
    pub fn ref_prod(&self, pidx: PIdx<T>) -> Vec<Sym> {
        self.grm
            .prod(pidx)
            .iter()
            .map(|s| match s {
                Symbol::Rule(r) => Sym::R(*self.rinv.get(&usize::from(*r)).unwrap_or(&usize::MAX)),
                Symbol::Token(t) => Sym::T(self.ref_tok(*t)),
            })
            .collect()
    }

    pub fn nstates(&self) -> usize {
        usize::from(self.sg.all_states_len())
    }
}

// ------------------------------------------------------------------------------------------------
// Harness input: token sequence -> text + lexemes with distinctive positions
// ------------------------------------------------------------------------------------------------

#[derive(Clone, Debug)]
pub struct HInput {
    pub toks: Vec<usize>,
    pub text: String,
    /// (start, len) of each lexeme
    pub pos: Vec<(usize, usize)>,
}

impl HInput {
    /// Lexeme k is 1 or 2 bytes wide and is preceded by a gap of 0 or 1 byte, so that starts, ends
    /// and indices can never be confused with one another.
    pub fn new(toks: &[usize]) -> HInput {
        let mut text = String::new();
        let mut pos = vec![];
        for (k, t) in toks.iter().enumerate() {
            if k % 3 == 1 {
                text.push(' ');
            }
            let len = 1 + (k % 2);
            let start = text.len();
            for _ in 0..len {
                text.push((b'a' + (*t as u8 % 26)) as char);
            }
            pos.push((start, len));
        }
        // trailing gap so that "end of input" differs from "end of last lexeme"
        text.push(' ');
        HInput {
            toks: toks.to_vec(),
            text,
            pos,
        }
    }

    pub fn len(&self) -> usize {
        self.toks.len()
    }

    pub fn end_of_last(&self) -> usize {
        self.pos.last().map(|(s, l)| s + l).unwrap_or(0)
    }

    /// Index of the lexeme starting at `start` (exact match on start and length).
    pub fn index_of(&self, start: usize, len: usize) -> Option<usize> {
        self.pos.iter().position(|&(s, l)| s == start && l == len)
    }

    pub fn lexemes<T: Storage>(&self, b: &Built<T>) -> Vec<DefaultLexeme<T>>
    where
        usize: AsPrimitive<T>,
    {
        self.toks
            .iter()
            .zip(self.pos.iter())
            .map(|(t, (s, l))| DefaultLexeme::new(b.tmap[*t].as_storaget(), *s, *l))
            .collect()
    }
}

// ------------------------------------------------------------------------------------------------
// Parse results in harness types
// ------------------------------------------------------------------------------------------------

#[derive(Clone, PartialEq, Eq, Debug, Hash)]
pub enum RTree {
    Leaf {
        tok: usize,
        start: usize,
        end: usize,
        faulty: bool,
    },
    Node {
        rule: usize,
        kids: Vec<RTree>,
    },
}

impl RTree {
    pub fn leaves(&self, out: &mut Vec<(usize, usize, usize, bool)>) {
        match self {
            RTree::Leaf {
                tok,
                start,
                end,
                faulty,
            } => out.push((*tok, *start, *end, *faulty)),
            RTree::Node { kids, .. } => {
                for k in kids {
                    k.leaves(out)
                }
            }
        }
    }

    /// Convert into a reference tree for a *non-repaired* parse: every leaf must be a real input
    /// lexeme; `None` if some leaf is not.
    pub fn to_tree(&self, inp: &HInput) -> Option<Tree> {
        match self {
            RTree::Leaf {
                tok,
                start,
                end,
                faulty,
            } => {
                if *faulty {
                    return None;
                }
                let i = inp.index_of(*start, end - start)?;
                if inp.toks[i] != *tok {
                    return None;
                }
                Some(Tree::Leaf { tok: *tok, lex: i })
            }
            RTree::Node { rule, kids } => {
                let mut ks = vec![];
                for k in kids {
                    ks.push(k.to_tree(inp)?);
                }
                Some(Tree::Node {
                    rule: *rule,
                    kids: ks,
                })
            }
        }
    }

    /// Structure only (rule / token ids), ignoring positions.
    pub fn shape(&self) -> String {
        match self {
            RTree::Leaf { tok, faulty, .. } => {
                format!("{}t{}", if *faulty { "!" } else { "" }, tok)
            }
            RTree::Node { rule, kids } => {
                let ks: Vec<String> = kids.iter().map(|k| k.shape()).collect();
                format!("R{}({})", rule, ks.join(" "))
            }
        }
    }
}

#[derive(Clone, PartialEq, Eq, Debug, Hash, PartialOrd, Ord)]
pub enum Rep {
    Insert(usize),
    /// index of the deleted input lexeme
    Delete(usize),
    Shift(usize),
    /// a Delete/Shift whose lexeme is not an input lexeme (span/token mismatch)
    Bad(String),
}

#[derive(Clone, Debug, PartialEq, Eq)]
pub struct ErrOut {
    /// index of the offending input lexeme (`len` = end of input); None if it matches no lexeme
    pub lex_idx: Option<usize>,
    pub stidx: usize,
    pub span: (usize, usize),
    pub tok: usize,
    pub faulty: bool,
    pub repairs: Vec<Vec<Rep>>,
}

#[derive(Clone, Debug, PartialEq, Eq)]
pub struct ParseOut {
    pub tree: Option<RTree>,
    pub errors: Vec<ErrOut>,
}

pub fn conv_errors<T: Storage>(
    b: &Built<T>,
    inp: &HInput,
    errs: &[LexParseError<T, DefaultLexerTypes<T>>],
) -> Vec<ErrOut>
where
    usize: AsPrimitive<T>,
{
    let conv_lex = |l: &DefaultLexeme<T>| -> Option<usize> {
        let sp = l.span();
        let i = inp.index_of(sp.start(), sp.len())?;
        if b.ref_tok(TIdx(l.tok_id())) == inp.toks[i] && !l.faulty() {
            Some(i)
        } else {
            None
        }
    };
    errs.iter()
        .map(|e| match e {
            LexParseError::LexError(_) => unreachable!("harness lexer never fails"),
            LexParseError::ParseError(pe) => {
                let l = pe.lexeme();
                let sp = l.span();
                let tok = b.ref_tok(TIdx(l.tok_id()));
                let lex_idx = if tok == b.tmap.len() {
                    // EOF lexeme
                    Some(inp.len())
                } else {
                    conv_lex(l)
                };
                ErrOut {
                    lex_idx,
                    stidx: usize::from(pe.stidx()),
                    span: (sp.start(), sp.end()),
                    tok,
                    faulty: l.faulty(),
                    repairs: pe
                        .repairs()
                        .iter()
                        .map(|seq| {
                            seq.iter()
                                .map(|r| match r {
                                    ParseRepair::Insert(t) => Rep::Insert(b.ref_tok(*t)),
                                    ParseRepair::Delete(l) => match conv_lex(l) {
                                        Some(i) => Rep::Delete(i),
                                        None => Rep::Bad(format!("Delete {:?}", l)),
                                    },
                                    ParseRepair::Shift(l) => match conv_lex(l) {
                                        Some(i) => Rep::Shift(i),
                                        None => Rep::Bad(format!("Shift {:?}", l)),
                                    },
                                })
                                .collect()
                        })
                        .collect(),
                }
            }
        })
        .collect()
}

/// Run the real parser (`parse_map`) over a harness input.
pub fn parse<T: Storage>(
    b: &Built<T>,
    inp: &HInput,
    rk: RecoveryKind,
    costs: Option<&[u8]>,
) -> ParseOut
where
    usize: AsPrimitive<T>,
{
    let lexemes: Vec<Result<DefaultLexeme<T>, lrlex::LRLexError>> =
        inp.lexemes(b).into_iter().map(Ok).collect();
    parse_lexemes(b, inp, &inp.text, lexemes, rk, costs)
}

/// Run the real parser over explicitly given lexemes (used for the pass-through re-parse of a
/// repaired stream, where some lexemes are faulty, zero-length ones).
pub fn parse_lexemes<T: Storage>(
    b: &Built<T>,
    inp: &HInput,
    text: &str,
    lexemes: Vec<Result<DefaultLexeme<T>, lrlex::LRLexError>>,
    rk: RecoveryKind,
    costs: Option<&[u8]>,
) -> ParseOut
where
    usize: AsPrimitive<T>,
{
    let lexer: LRNonStreamingLexer<DefaultLexerTypes<T>> =
        LRNonStreamingLexer::new(text, lexemes, NewlineCache::new());
    let cost_fn = |tidx: TIdx<T>| -> u8 {
        match costs {
            None => 1,
            Some(c) => {
                let t = b.ref_tok(tidx);
                if t < c.len() { c[t] } else { 1 }
            }
        }
    };
    let pb = RTParserBuilder::new(&b.grm, &b.st)
        .recoverer(rk)
        .term_costs(&cost_fn);
    let fterm = |l: DefaultLexeme<T>| RTree::Leaf {
        tok: b.ref_tok(TIdx(l.tok_id())),
        start: l.span().start(),
        end: l.span().end(),
        faulty: l.faulty(),
    };
    let fnon = |ridx: RIdx<T>, kids: Vec<RTree>| RTree::Node {
        rule: *b.rinv.get(&usize::from(ridx)).unwrap_or(&usize::MAX),
        kids,
    };
    let (tree, errs) = pb.parse_map(&lexer, &fterm, &fnon);
    ParseOut {
        tree,
        errors: conv_errors(b, inp, &errs),
    }
}

// ------------------------------------------------------------------------------------------------
// Reference LR driver over the *public* table interface (independent of Parser::lr / lr_upto /
// lr_cactus): the "plain LR parse" that C05-C07 talk about.
// ------------------------------------------------------------------------------------------------

#[derive(Clone, Copy, PartialEq, Eq, Debug)]
pub enum Feed {
    Shifted,
    Accept,
    Error,
    /// more than `bound` reductions without consuming the lookahead
    Loop,
}

pub struct Drv<'a, T: Storage>
where
    usize: AsPrimitive<T>,
{
    pub grm: &'a YaccGrammar<T>,
    pub st: &'a StateTable<T>,
    pub red_bound: usize,
}

impl<'a, T: Storage> Drv<'a, T>
where
    usize: AsPrimitive<T>,
{
    pub fn new(b: &'a Built<T>, max_input: usize) -> Self {
        let max_rhs = b
            .grm
            .iter_pidxs()
            .map(|p| b.grm.prod(p).len())
            .max()
            .unwrap_or(0);
        Drv {
            grm: &b.grm,
            st: &b.st,
            red_bound: (max_input + 2) * b.nstates() * (max_rhs + 2) * 4,
        }
    }

    pub fn from_parts(grm: &'a YaccGrammar<T>, st: &'a StateTable<T>, nstates: usize, max_input: usize) -> Self {
        let max_rhs = grm.iter_pidxs().map(|p| grm.prod(p).len()).max().unwrap_or(0);
        Drv {
            grm,
            st,
            red_bound: (max_input + 2) * nstates * (max_rhs + 2) * 4,
        }
    }

    /// Offer lookahead `la` to the configuration `stack`: perform reductions until the token is
    /// shifted, accepted or refused. On `Error` the stack is left as it was *after* the
    /// reductions performed under this lookahead.
    pub fn feed(&self, stack: &mut Vec<StIdx<T>>, la: TIdx<T>) -> Feed {
        use lrtable::Action;
        let mut reds = 0;
        loop {
            let top = *stack.last().unwrap();
            match self.st.action(top, la) {
                Action::Shift(s) => {
                    stack.push(s);
                    return Feed::Shifted;
                }
                Action::Reduce(p) => {
                    reds += 1;
                    if reds > self.red_bound {
                        return Feed::Loop;
                    }
                    let n = self.grm.prod(p).len();
                    let r = self.grm.prod_to_rule(p);
                    stack.truncate(stack.len() - n);
                    let prior = *stack.last().unwrap();
                    match self.st.goto(prior, r) {
                        Some(s) => stack.push(s),
                        None => return Feed::Error,
                    }
                }
                Action::Accept => return Feed::Accept,
                Action::Error => return Feed::Error,
            }
        }
    }

    /// Pre-screen: does a plain LR parse of `toks` (real token indices, EOF appended here) stay
    /// within the reduction-run bound?
    pub fn terminates(&self, toks: &[TIdx<T>]) -> bool {
        // a table that sends the driver to a state or rule that does not exist makes the table's
        // own accessors panic: that is no reason to exclude the input - the real parser is run
        // on it and judged (it will fail in the same way, inside the engines' catch_unwind)
        std::panic::catch_unwind(std::panic::AssertUnwindSafe(|| {
            let mut stack = vec![self.st.start_state()];
            for t in toks.iter().cloned().chain(std::iter::once(self.grm.eof_token_idx())) {
                match self.feed(&mut stack, t) {
                    Feed::Shifted => {}
                    Feed::Accept | Feed::Error => return true,
                    Feed::Loop => return false,
                }
            }
            true
        }))
        .unwrap_or(true)
    }
}

pub fn span(s: usize, e: usize) -> Span {
    Span::new(s, e)
}

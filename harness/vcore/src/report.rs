//! Evidence files, violation / replay files, known findings.

use serde_json::{Map, Value, json};
use std::collections::BTreeMap;
use std::fs;
use std::path::PathBuf;
use std::sync::Mutex;
use std::time::Instant;

pub const VERIF_DIR: &str = "/verif";

#[derive(Clone, Debug)]
pub struct Violation {
    /// short stable description used for the replay file name and for de-duplication
    pub key: String,
    pub summary: String,
    /// the complete case (grammar text, input, settings, implementation answer, reference answer)
    pub case: Value,
}

#[derive(Clone, Debug)]
pub struct KnownEntry {
    pub id: String,
    pub property: String,
    pub status: String, // "open" | "fixed"
    pub model: String,
    pub what: String,
}

pub struct Ctx {
    pub property: String,
    pub tier: String,
    pub seed: u64,
    pub level: String,
    pub start: Instant,
    pub known: Vec<KnownEntry>,
    violations: Mutex<Vec<Violation>>,
    known_hits: Mutex<BTreeMap<String, (u64, String)>>,
    counters: Mutex<BTreeMap<String, u64>>,
    samples: Mutex<Vec<Value>>,
    notes: Mutex<Vec<String>>,
    pub replay: Option<PathBuf>,
    /// replay by filtered re-run: only violations whose case has these (key, value) pairs are kept
    replay_filter: Mutex<Option<Vec<(String, Value)>>>,
}

fn fnv(s: &str) -> u64 {
    let mut h: u64 = 0xcbf29ce484222325;
    for b in s.bytes() {
        h ^= b as u64;
        h = h.wrapping_mul(0x100000001b3);
    }
    h
}

impl Ctx {
    pub fn new(property: &str, tier: &str, level: &str) -> Ctx {
        let seed = std::env::var("VERIF_SEED")
            .ok()
            .and_then(|s| s.parse().ok())
            .unwrap_or(0);
        Ctx {
            property: property.to_string(),
            tier: tier.to_string(),
            seed,
            level: level.to_string(),
            start: Instant::now(),
            known: load_known(),
            violations: Mutex::new(vec![]),
            known_hits: Mutex::new(BTreeMap::new()),
            counters: Mutex::new(BTreeMap::new()),
            samples: Mutex::new(vec![]),
            notes: Mutex::new(vec![]),
            replay: None,
            replay_filter: Mutex::new(None),
        }
    }

    pub fn quick(&self) -> bool {
        self.tier == "quick"
    }

    pub fn count(&self, name: &str, n: u64) {
        *self.counters.lock().unwrap().entry(name.to_string()).or_insert(0) += n;
    }

    pub fn get(&self, name: &str) -> u64 {
        *self.counters.lock().unwrap().get(name).unwrap_or(&0)
    }

    pub fn set(&self, name: &str, n: u64) {
        self.counters.lock().unwrap().insert(name.to_string(), n);
    }

    pub fn sample(&self, v: Value) {
        let mut s = self.samples.lock().unwrap();
        if s.len() < 12 {
            s.push(v);
        }
    }

    pub fn note(&self, s: &str) {
        self.notes.lock().unwrap().push(s.to_string());
    }

    /// Replay by re-running the (cheap) exploration and keeping only the violations of the stored
    /// case: those whose case agrees with `case` on every one of `keys`.
    pub fn replay_only(&self, keys: &[&str], case: &Value) {
        *self.replay_filter.lock().unwrap() = Some(keys.iter().map(|k| (k.to_string(), case.get(*k).cloned().unwrap_or(Value::Null))).collect());
    }

    fn filtered_out(&self, case: &Value) -> bool {
        match &*self.replay_filter.lock().unwrap() {
            None => false,
            Some(f) => f.iter().any(|(k, v)| case.get(k).cloned().unwrap_or(Value::Null) != *v),
        }
    }

    pub fn violation(&self, key: &str, summary: &str, case: Value) {
        if self.filtered_out(&case) {
            return;
        }
        let mut v = self.violations.lock().unwrap();
        if v.len() < 100_000 {
            v.push(Violation {
                key: key.to_string(),
                summary: summary.to_string(),
                case,
            });
        }
    }

    pub fn nviolations(&self) -> usize {
        self.violations.lock().unwrap().len()
    }

    /// Is there an *open* known finding for defect model `model` of this property?
    pub fn is_known(&self, model: &str) -> bool {
        self.known
            .iter()
            .any(|k| k.property == self.property && k.model == model && k.status == "open")
    }

    /// Report a discrepancy that is explained by defect model `model`. If the model is listed as
    /// an open known finding it is counted and printed as KNOWN-FINDING, otherwise it is a
    /// violation like any other.
    pub fn defect(&self, model: &str, summary: &str, case: Value) {
        if self.is_known(model) {
            let mut k = self.known_hits.lock().unwrap();
            let e = k.entry(model.to_string()).or_insert((0, summary.to_string()));
            e.0 += 1;
        } else {
            self.violation(&format!("{}:{}", model, summary), summary, case);
        }
    }

    /// Write evidence + replays, print verdict lines, return the process exit code.
    pub fn finish(&self, coverage: Value, assumptions: &[&str], exhaustive: bool) -> i32 {
        let wall = self.start.elapsed().as_secs_f64();
        let viols = self.violations.lock().unwrap();
        let mut cov: Map<String, Value> = match coverage {
            Value::Object(m) => m,
            _ => Map::new(),
        };
        for (k, v) in self.counters.lock().unwrap().iter() {
            cov.entry(k.clone()).or_insert(json!(v));
        }
        if !cov.contains_key("samples") {
            cov.insert("samples".into(), Value::Array(self.samples.lock().unwrap().clone()));
        }
        cov.insert("exhaustive".into(), json!(exhaustive));
        let notes = self.notes.lock().unwrap();
        if !notes.is_empty() {
            cov.insert("notes".into(), json!(notes.clone()));
        }
        let kh = self.known_hits.lock().unwrap();
        let mut kf = vec![];
        for (model, (n, first)) in kh.iter() {
            let id = self
                .known
                .iter()
                .find(|k| k.property == self.property && &k.model == model)
                .map(|k| k.id.clone())
                .unwrap_or_default();
            println!(
                "KNOWN-FINDING: property={} {} model={} cases={} first: {}",
                self.property, id, model, n, first
            );
            kf.push(json!({"id": id, "model": model, "cases": n, "first": first}));
        }
        cov.insert("known_findings_hit".into(), json!(kf));
        let ev = json!({
            "property_id": self.property,
            "tier": self.tier,
            "seed": self.seed,
            "level": self.level,
            "coverage": Value::Object(cov),
            "assumptions": assumptions,
            "wall_s": wall,
            "violations": viols.len(),
        });
        let evdir = format!("{}/evidence", VERIF_DIR);
        fs::create_dir_all(&evdir).ok();
        // Second pass (binary built without debug assertions and overflow checks, run by ./check
        // before the main pass): its summary goes to a side file that the main pass folds into
        // the evidence; it never writes the evidence file itself.
        let nodebug_pass = std::env::var("VERIF_PASS").map(|p| p == "nodebug").unwrap_or(false);
        let side = format!("{}/target/pass_nodebug.{}.json", VERIF_DIR, self.property);
        if nodebug_pass && self.replay.is_none() {
            let c = ev["coverage"].as_object().unwrap();
            let pick = |k: &str| c.get(k).cloned().unwrap_or(Value::Null);
            fs::write(
                &side,
                json!({"build": "debug-assertions off, overflow-checks off", "tier_of_this_pass": self.tier, "violations": viols.len(), "wall_s": wall,
                       "states": pick("states"), "transitions": pick("transitions"), "programs": pick("programs"), "evaluations": pick("evaluations")})
                .to_string(),
            )
            .ok();
        }
        let mut ev = ev;
        if !nodebug_pass {
            if let Ok(sv) = fs::read_to_string(&side) {
                if let Ok(v) = serde_json::from_str::<Value>(&sv) {
                    ev["coverage"]["pass_without_debug_assertions"] = v;
                }
            }
        }
        // in replay mode the evidence file is not touched
        if self.replay.is_none() && !nodebug_pass {
            fs::write(
                format!("{}/{}.json", evdir, self.property),
                serde_json::to_string_pretty(&ev).unwrap(),
            )
            .expect("cannot write evidence");
        }
        if viols.is_empty() {
            println!(
                "OK property={} tier={}{} wall={:.1}s",
                self.property,
                self.tier,
                if nodebug_pass { " pass=nodebug" } else { "" },
                wall
            );
            return 0;
        }
        let rdir = format!("{}/replays/{}", VERIF_DIR, self.property);
        fs::create_dir_all(&rdir).ok();
        let mut seen: BTreeMap<String, usize> = BTreeMap::new();
        let mut printed = 0;
        for v in viols.iter() {
            // group by the kind prefix of the key so that one defect does not print 10^4 lines
            let kind = v.key.split(':').next().unwrap_or("").to_string();
            let n = seen.entry(kind.clone()).or_insert(0);
            *n += 1;
            if *n > 3 {
                continue;
            }
            let path = format!("{}/{:016x}.json", rdir, fnv(&format!("{}{}", v.key, v.case)));
            let body = json!({
                "property": self.property,
                "tier": self.tier,
                "pass": if nodebug_pass { "nodebug" } else { "main" },
                "seed": self.seed,
                "key": v.key,
                "summary": v.summary,
                "case": v.case,
            });
            if self.replay.is_none() {
                fs::write(&path, serde_json::to_string_pretty(&body).unwrap()).ok();
            }
            println!("VIOLATION property={} replay={}", self.property, path);
            println!("  {}", v.summary);
            printed += 1;
        }
        println!(
            "FAILED property={} violations={} (printed {}) kinds={:?}",
            self.property,
            viols.len(),
            printed,
            seen
        );
        1
    }
}

pub fn load_known() -> Vec<KnownEntry> {
    let path = format!("{}/known_findings.json", VERIF_DIR);
    let Ok(s) = fs::read_to_string(&path) else {
        return vec![];
    };
    let v: Value = serde_json::from_str(&s).expect("known_findings.json is not valid JSON");
    let mut out = vec![];
    if let Some(a) = v.get("findings").and_then(|x| x.as_array()) {
        for e in a {
            let gs = |k: &str| e.get(k).and_then(|x| x.as_str()).unwrap_or("").to_string();
            out.push(KnownEntry {
                id: gs("id"),
                property: gs("property"),
                status: gs("status"),
                model: gs("model"),
                what: gs("what"),
            });
        }
    }
    out
}

thread_local! {
    static LAST_PANIC_AT: std::cell::RefCell<String> = const { std::cell::RefCell::new(String::new()) };
}

/// Replaces the default panic hook: the source location of every panic is remembered per thread
/// (see `last_panic_at`), and the message is only printed when VERIF_LOUD is set.
pub fn quiet_panics() {
    let loud = std::env::var("VERIF_LOUD").is_ok();
    std::panic::set_hook(Box::new(move |info| {
        let at = info.location().map(|l| format!("{}:{}", l.file(), l.line())).unwrap_or_default();
        if loud {
            eprintln!("panic at {}: {}", at, info);
            eprintln!("{}", std::backtrace::Backtrace::force_capture());
        }
        LAST_PANIC_AT.with(|c| *c.borrow_mut() = at);
    }));
}

/// Source location of the last panic raised on this thread.
pub fn last_panic_at() -> String {
    LAST_PANIC_AT.with(|c| c.borrow().clone())
}

/// Was the last panic of this thread raised by the harness itself (and not by the code under test
/// or a library it called with bad arguments)?
pub fn last_panic_in_harness() -> bool {
    let at = last_panic_at();
    at.is_empty() || at.contains("vcore/src") || at.contains("vcheck/src") || at.contains("ctrt/")
}

impl Ctx {
    /// Runs `f`. A panic raised inside the code under test becomes a violation of kind `panic`
    /// for the case described by `case`; a panic raised by the harness itself is passed on (and
    /// ends the run as a machinery error).
    pub fn guard<R>(&self, what: &str, case: impl FnOnce() -> Value, default: R, f: impl FnOnce() -> R) -> R {
        match std::panic::catch_unwind(std::panic::AssertUnwindSafe(f)) {
            Ok(r) => r,
            Err(e) => {
                if last_panic_in_harness() {
                    std::panic::resume_unwind(e);
                }
                self.violation(
                    "panic",
                    &format!("{}: the code under test panicked at {}: {:?}", what, last_panic_at(), panic_msg(&e)),
                    case(),
                );
                default
            }
        }
    }
}

pub fn panic_msg(e: &Box<dyn std::any::Any + Send>) -> String {
    if let Some(s) = e.downcast_ref::<&str>() {
        s.to_string()
    } else if let Some(s) = e.downcast_ref::<String>() {
        s.clone()
    } else {
        "<non-string panic>".to_string()
    }
}

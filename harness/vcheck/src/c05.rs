//! C05 — every reported repair sequence repairs; parsing continues as if it were applied.
//! C06 — repair sequences are the complete minimum-cost set, ranked as documented.
//! C07 — error recovery always progresses and the error list matches the outcome.
//!
//! All three run the real recovering parser (CPCT+) over every (grammar, cost vector, input) of
//! the bounded space, inside watched child processes (one case = one grammar; the child loops
//! over cost vectors and inputs). The oracles are a replay of every reported repair sequence
//! through an independent LR driver over the public table (C05), an exhaustive explicit-state
//! search over the same edit moves (C06), and progress / outcome invariants (C07).

use crate::common::*;
use lrpar::{Lexeme, RecoveryKind};
use lrtable::StIdx;
use serde_json::{Value, json};
use std::collections::BTreeSet;
use std::time::Duration;
use vcore::gram::{RefGrammar, all_inputs, family_empty, family_expr, family_seeds};
use vcore::pool::{WOut, run_pool, worker_main};
use vcore::real::{Built, Drv, ErrOut, Feed, HInput, ParseOut, RTree, Rep, build, parse, parse_lexemes};
use vcore::refs::{Earley, analyse};
use vcore::report::Ctx;

#[derive(Clone, Copy, PartialEq, Eq, Debug)]
pub enum Mode {
    C05,
    C06,
    C07,
}

impl Mode {
    fn name(&self) -> &'static str {
        match self {
            Mode::C05 => "C05",
            Mode::C06 => "C06",
            Mode::C07 => "C07",
        }
    }
    fn from(s: &str) -> Mode {
        match s {
            "C05" => Mode::C05,
            "C06" => Mode::C06,
            _ => Mode::C07,
        }
    }
}

const N_SHIFTS: usize = lrpar::verif_hooks::PARSE_AT_LEAST;
const PARSE_AT_MOST: usize = lrpar::verif_hooks::TRY_PARSE_AT_MOST;

// ------------------------------------------------------------------------------------------------
// Reference: explicit-state search over repair sequences
// ------------------------------------------------------------------------------------------------

#[derive(Clone, Copy, PartialEq, Eq, Debug)]
enum Mv {
    Ins(usize),
    Del,
    Shf,
}

#[derive(Clone)]
struct Node {
    stack: Vec<StIdx<u32>>,
    j: usize,
    trailing: usize,
    last_del: bool,
    seq: Vec<Mv>,
}

pub struct RefRepairs {
    pub cstar: u32,
    /// ranked (furthest-parsing) minimum-cost sequences, trailing shifts stripped, de-duplicated
    pub seqs: BTreeSet<Vec<Rep>>,
    pub nodes: u64,
    pub edges: u64,
    pub successes: u64,
}

fn seq_to_reps(seq: &[Mv], i0: usize) -> Vec<Rep> {
    let mut pos = i0;
    let mut out = vec![];
    for m in seq {
        match m {
            Mv::Ins(t) => out.push(Rep::Insert(*t)),
            Mv::Del => {
                out.push(Rep::Delete(pos));
                pos += 1;
            }
            Mv::Shf => {
                out.push(Rep::Shift(pos));
                pos += 1;
            }
        }
    }
    while matches!(out.last(), Some(Rep::Shift(_))) {
        out.pop();
    }
    out
}

/// Exhaustive search from the error configuration `(stack0, i0)`. `None` = beyond the bounds (no
/// verdict), or a table loop was met.
fn ref_repairs(
    drv: &Drv<u32>,
    b: &Built<u32>,
    toks: &[usize],
    stack0: &[StIdx<u32>],
    i0: usize,
    costs: &[u8],
    cost_bound: usize,
    node_bound: u64,
) -> Option<RefRepairs> {
    let len = toks.len();
    let eof = b.grm.eof_token_idx();
    let ntoks = b.tmap.len();
    let mut buckets: Vec<Vec<Node>> = vec![vec![]; cost_bound + 300];
    buckets[0].push(Node {
        stack: stack0.to_vec(),
        j: i0,
        trailing: 0,
        last_del: false,
        seq: vec![],
    });
    let mut nodes = 0u64;
    let mut edges = 0u64;
    let mut loopy = false;
    for c in 0..=cost_bound {
        let mut work = std::mem::take(&mut buckets[c]);
        let mut succ: Vec<Node> = vec![];
        while let Some(n) = work.pop() {
            nodes += 1;
            if nodes > node_bound {
                return None;
            }
            let is_success = n.trailing >= N_SHIFTS || {
                n.j == len && {
                    let mut s = n.stack.clone();
                    match drv.feed(&mut s, eof) {
                        Feed::Accept => true,
                        Feed::Loop => {
                            loopy = true;
                            false
                        }
                        _ => false,
                    }
                }
            };
            if is_success {
                succ.push(n);
                continue;
            }
            if n.j < len {
                // Shift
                let mut s = n.stack.clone();
                match drv.feed(&mut s, b.tmap[toks[n.j]]) {
                    Feed::Shifted => {
                        let mut seq = n.seq.clone();
                        seq.push(Mv::Shf);
                        edges += 1;
                        work.push(Node { stack: s, j: n.j + 1, trailing: n.trailing + 1, last_del: false, seq });
                    }
                    Feed::Loop => loopy = true,
                    _ => {}
                }
                // Delete
                let mut seq = n.seq.clone();
                seq.push(Mv::Del);
                edges += 1;
                buckets[c + costs[toks[n.j]] as usize].push(Node { stack: n.stack.clone(), j: n.j + 1, trailing: 0, last_del: true, seq });
            }
            if !n.last_del {
                for t in 0..ntoks {
                    let mut s = n.stack.clone();
                    match drv.feed(&mut s, b.tmap[t]) {
                        Feed::Shifted => {
                            let mut seq = n.seq.clone();
                            seq.push(Mv::Ins(t));
                            edges += 1;
                            buckets[c + costs[t] as usize].push(Node { stack: s, j: n.j, trailing: 0, last_del: false, seq });
                        }
                        Feed::Loop => loopy = true,
                        _ => {}
                    }
                }
            }
        }
        if loopy {
            return None;
        }
        if !succ.is_empty() {
            // rank by the distance parsing continues
            let mut best = 0;
            let mut ranked: Vec<(usize, &Node)> = vec![];
            for n in &succ {
                let mut s = n.stack.clone();
                let mut j = n.j;
                loop {
                    if j >= i0 + PARSE_AT_MOST {
                        break;
                    }
                    if j == len {
                        break;
                    }
                    match drv.feed(&mut s, b.tmap[toks[j]]) {
                        Feed::Shifted => j += 1,
                        Feed::Loop => return None,
                        _ => break,
                    }
                }
                if j > best {
                    best = j;
                }
                ranked.push((j, n));
            }
            let seqs: BTreeSet<Vec<Rep>> = ranked.iter().filter(|(j, _)| *j == best).map(|(_, n)| seq_to_reps(&n.seq, i0)).collect();
            return Some(RefRepairs { cstar: c as u32, seqs, nodes, edges, successes: succ.len() as u64 });
        }
    }
    None
}

// ------------------------------------------------------------------------------------------------
// Replay of one real parse result
// ------------------------------------------------------------------------------------------------

#[derive(Default)]
struct CaseStats {
    parses: u64,
    errors: u64,
    multi_error_inputs: u64,
    sequences: u64,
    multi_seq_errors: u64,
    loops: u64,
    budget_exhausted: u64,
    ref_nodes: u64,
    ref_edges: u64,
    ref_beyond_bound: u64,
    c06_compared: u64,
    driver_steps: u64,
    values: u64,
    eof_errors: u64,
    reparsed: u64,
    long_inputs: u64,
    gave_up: u64,
}

struct Viol {
    avoid: Vec<usize>,
    key: String,
    summary: String,
    input: Vec<usize>,
    costs: Vec<u8>,
    extra: Value,
}

fn rep_cost(seq: &[Rep], toks: &[usize], costs: &[u8]) -> u32 {
    seq.iter()
        .map(|r| match r {
            Rep::Insert(t) => *costs.get(*t).unwrap_or(&1) as u32,
            Rep::Delete(i) => toks.get(*i).map(|t| costs[*t] as u32).unwrap_or(0),
            _ => 0,
        })
        .sum()
}

type Lx = (usize, usize, usize, bool); // tok, start, end, faulty

/// Apply a reported sequence to `(stack, j)` through the reference driver, appending what it
/// shifts to `stream` (inserted tokens as zero-length faulty lexemes at the start of the next real
/// lexeme). Returns Err if some step is impossible (token not shiftable, lexeme index mismatch).
fn apply_seq(drv: &Drv<u32>, b: &Built<u32>, inp: &HInput, stack: &mut Vec<StIdx<u32>>, j: &mut usize, seq: &[Rep], stream: &mut Vec<Lx>) -> Result<(), String> {
    let toks = &inp.toks;
    for r in seq {
        match r {
            Rep::Insert(t) => {
                if *t >= b.tmap.len() {
                    return Err(format!("inserts token {} (end of input or unknown)", t));
                }
                if drv.feed(stack, b.tmap[*t]) != Feed::Shifted {
                    return Err(format!("Insert {} cannot be shifted", t));
                }
                let p = if *j < toks.len() { inp.pos[*j].0 } else { inp.end_of_last() };
                stream.push((*t, p, p, true));
            }
            Rep::Delete(i) => {
                if *i != *j || *j >= toks.len() {
                    return Err(format!("Delete names lexeme {} but the next lexeme is {}", i, j));
                }
                *j += 1;
            }
            Rep::Shift(i) => {
                if *i != *j || *j >= toks.len() {
                    return Err(format!("Shift names lexeme {} but the next lexeme is {}", i, j));
                }
                if drv.feed(stack, b.tmap[toks[*j]]) != Feed::Shifted {
                    return Err(format!("Shift of lexeme {} is not possible", j));
                }
                stream.push((toks[*j], inp.pos[*j].0, inp.pos[*j].0 + inp.pos[*j].1, false));
                *j += 1;
            }
            Rep::Bad(s) => return Err(format!("repair names a lexeme that is not in the input: {}", s)),
        }
    }
    Ok(())
}

/// After a sequence has been applied: does a plain LR parse continue over N further lexemes or to
/// acceptance?
fn continues(drv: &Drv<u32>, b: &Built<u32>, toks: &[usize], stack: &[StIdx<u32>], j: usize) -> bool {
    let mut s = stack.to_vec();
    let mut j = j;
    let mut shifted = 0;
    loop {
        if shifted >= N_SHIFTS {
            return true;
        }
        let la = if j < toks.len() { b.tmap[toks[j]] } else { b.grm.eof_token_idx() };
        match drv.feed(&mut s, la) {
            Feed::Shifted => {
                shifted += 1;
                j += 1;
            }
            Feed::Accept => return true,
            _ => return false,
        }
    }
}

fn check_parse(
    mode: Mode,
    g: &RefGrammar,
    b: &Built<u32>,
    drv: &Drv<u32>,
    ea: &Earley,
    inp: &HInput,
    costs: &[u8],
    out: &ParseOut,
    budget_exhausted: bool,
    st: &mut CaseStats,
    viols: &mut Vec<Viol>,
) {
    let toks = &inp.toks;
    let n = toks.len();
    let mut v = |key: &str, summary: String, extra: Value| {
        viols.push(Viol { avoid: vec![], key: key.to_string(), summary, input: toks.clone(), costs: costs.to_vec(), extra });
    };
    let errs: &Vec<ErrOut> = &out.errors;
    st.errors += errs.len() as u64;
    if errs.len() >= 2 {
        st.multi_error_inputs += 1;
    }
    if out.tree.is_some() {
        st.values += 1;
    }
    // ---------------- C07: shape of the result
    if mode == Mode::C07 {
        st.eof_errors += errs.iter().filter(|e| e.lex_idx == Some(n)).count() as u64;
        let pos: Vec<Option<usize>> = errs.iter().map(|e| e.lex_idx).collect();
        if pos.iter().any(|p| p.is_none()) {
            v("c07-lexeme", format!("an error names a lexeme that is not in the input: {:?}", errs.iter().map(|e| e.span).collect::<Vec<_>>()), json!(null));
        } else {
            let p: Vec<usize> = pos.iter().map(|x| x.unwrap()).collect();
            for k in 1..p.len() {
                if p[k] <= p[k - 1] {
                    v("c07-order", format!("errors are not in strictly increasing position: {:?}", p), json!(null));
                    break;
                }
                if p[k] < (p[k - 1] + N_SHIFTS).min(n) {
                    v("c07-distance", format!("error at lexeme {} follows the error at {} by fewer than {} lexemes (input length {}): {:?}", p[k], p[k - 1], N_SHIFTS, n, p), json!(null));
                    break;
                }
            }
            if p.len() > n + 1 {
                v("c07-count", format!("{} errors for an input of {} lexemes", p.len(), n), json!(null));
            }
        }
        for (k, e) in errs.iter().enumerate() {
            if e.repairs.is_empty() && k + 1 != errs.len() {
                v("c07-empty-not-last", format!("error {} of {} has no repair sequence but is not the last", k, errs.len()), json!(null));
            }
        }
        let all_repaired = errs.iter().all(|e| !e.repairs.is_empty());
        if !all_repaired {
            st.gave_up += 1;
        }
        if out.tree.is_some() != all_repaired {
            v("c07-value", format!("value returned = {} but every error has a repair = {} ({} errors)", out.tree.is_some(), all_repaired, errs.len()), json!(null));
        }
        if out.tree.is_some() && errs.is_empty() && !ea.accepts(toks) {
            v("c07-accept", "value and empty error list for an input that is not a sentence".to_string(), json!(null));
        }
        if errs.is_empty() && out.tree.is_none() {
            v("c07-nothing", "neither a value nor an error was returned".to_string(), json!(null));
        }
        return;
    }
    // ---------------- C05 / C06: replay
    let mut stack = vec![b.st.start_state()];
    let mut i = 0usize;
    let mut stream: Vec<Lx> = vec![]; // the repaired input
    let mut ended_with_unrepaired: Option<usize> = None;
    for (k, e) in errs.iter().enumerate() {
        // plain LR until the next error
        loop {
            let la = if i < n { b.tmap[toks[i]] } else { b.grm.eof_token_idx() };
            st.driver_steps += 1;
            match drv.feed(&mut stack, la) {
                Feed::Shifted => {
                    stream.push((toks[i], inp.pos[i].0, inp.pos[i].0 + inp.pos[i].1, false));
                    i += 1;
                }
                Feed::Accept => {
                    if mode == Mode::C05 {
                        v("c05-phantom-error", format!("error {} reported at lexeme {:?} although, with the first repair of every earlier error applied, a plain LR parse accepts", k, e.lex_idx), json!({"error": k}));
                    }
                    return;
                }
                Feed::Error => break,
                Feed::Loop => {
                    st.loops += 1;
                    return;
                }
            }
        }
        if e.lex_idx != Some(i) {
            if mode == Mode::C05 {
                v(
                    "c05-error-position",
                    format!("error {} reported at lexeme {:?} but, with the first repair of every earlier error applied, a plain LR parse fails at lexeme {}", k, e.lex_idx, i),
                    json!({"error": k}),
                );
            }
            return;
        }
        if e.stidx != usize::from(*stack.last().unwrap()) {
            if mode == Mode::C05 {
                v("c05-stidx", format!("error {} reports state {} but the plain LR parse is in state {}", k, e.stidx, usize::from(*stack.last().unwrap())), json!({"error": k}));
            }
            return;
        }
        if i == n {
            st.eof_errors += 1;
            if mode == Mode::C05 && (e.tok != g.ntoks || e.span != (inp.end_of_last(), inp.end_of_last())) {
                v("c05-eof-lexeme", format!("end-of-input error carries lexeme tok {} span {:?}", e.tok, e.span), json!({"error": k}));
            }
        }
        st.sequences += e.repairs.len() as u64;
        if e.repairs.len() >= 2 {
            st.multi_seq_errors += 1;
        }
        // validity of every sequence
        let mut valid: Vec<bool> = vec![];
        for (si, seq) in e.repairs.iter().enumerate() {
            let mut s2 = stack.clone();
            let mut j2 = i;
            let mut dummy = vec![];
            let ok = match apply_seq(drv, b, inp, &mut s2, &mut j2, seq, &mut dummy) {
                Ok(()) => {
                    if continues(drv, b, toks, &s2, j2) {
                        Ok(())
                    } else {
                        Err("after applying it a plain LR parse fails before three further lexemes are shifted or the input is accepted".to_string())
                    }
                }
                Err(m) => Err(m),
            };
            valid.push(ok.is_ok());
            if let Err(m) = ok {
                if mode == Mode::C05 {
                    v("c05-invalid-sequence", format!("error {} at lexeme {}: reported repair sequence {} {:?} does not repair: {}", k, i, si, seq, m), json!({"error": k, "sequence": si}));
                }
            }
        }
        // ---------------- C06 for this error
        if mode == Mode::C06 && !e.repairs.is_empty() {
            let reported: Vec<&Vec<Rep>> = e.repairs.iter().zip(valid.iter()).filter(|(_, ok)| **ok).map(|(s, _)| s).collect();
            let cs: BTreeSet<u32> = reported.iter().map(|s| rep_cost(s, toks, costs)).collect();
            if cs.len() > 1 {
                v("c06-mixed-cost", format!("error at lexeme {}: reported sequences have different costs {:?}: {:?}", i, cs, e.repairs), json!({"error": k}));
            }
            let set: BTreeSet<Vec<Rep>> = reported.iter().map(|s| (*s).clone()).collect();
            if set.len() != reported.len() {
                v("c06-duplicate", format!("error at lexeme {}: a sequence is reported twice: {:?}", i, e.repairs), json!({"error": k}));
            }
            for s in &e.repairs {
                if matches!(s.last(), Some(Rep::Shift(_))) {
                    v("c06-trailing-shift", format!("error at lexeme {}: sequence ends in a shift: {:?}", i, s), json!({"error": k}));
                }
                if s.iter().any(|r| matches!(r, Rep::Insert(t) if *t >= g.ntoks)) {
                    v("c06-insert-eof", format!("error at lexeme {}: sequence inserts the end-of-input token: {:?}", i, s), json!({"error": k}));
                }
            }
            // ordering: avoid_insert sequences last; inside each group non-decreasing length
            let cai = |s: &Vec<Rep>| s.iter().any(|r| matches!(r, Rep::Insert(t) if g.avoid_insert.contains(t)));
            let flags: Vec<bool> = e.repairs.iter().map(cai).collect();
            let first_avoid = flags.iter().position(|x| *x).unwrap_or(flags.len());
            if flags[first_avoid..].iter().any(|x| !*x) {
                v("c06-avoid-order", format!("error at lexeme {}: a sequence inserting an %avoid_insert token comes before one that does not: {:?}", i, e.repairs), json!({"error": k}));
            }
            for grp in [&e.repairs[..first_avoid], &e.repairs[first_avoid..]] {
                if flags[first_avoid..].iter().all(|x| *x) && grp.windows(2).any(|w| w[0].len() > w[1].len()) {
                    v("c06-length-order", format!("error at lexeme {}: sequences are not ordered by length inside their group: {:?}", i, e.repairs), json!({"error": k}));
                }
            }
            if !cs.is_empty() {
                let cimpl = *cs.iter().next().unwrap();
                match ref_repairs(drv, b, toks, &stack, i, costs, 12, 400_000) {
                    None => st.ref_beyond_bound += 1,
                    Some(rr) => {
                        st.ref_nodes += rr.nodes;
                        st.ref_edges += rr.edges;
                        st.c06_compared += 1;
                        if rr.cstar != cimpl {
                            v(
                                "c06-cost",
                                format!("error at lexeme {}: reported sequences cost {} but the minimum cost of a valid repair is {} (e.g. {:?}); reported {:?}", i, cimpl, rr.cstar, rr.seqs.iter().next(), e.repairs),
                                json!({"error": k, "reference": format!("{:?}", rr.seqs)}),
                            );
                        } else if rr.seqs != set {
                            let missing: Vec<_> = rr.seqs.difference(&set).collect();
                            let extra: Vec<_> = set.difference(&rr.seqs).collect();
                            v(
                                "c06-set",
                                format!("error at lexeme {}: minimum-cost repair set differs: missing {:?}, not in reference {:?}", i, missing, extra),
                                json!({"error": k, "reference": format!("{:?}", rr.seqs), "reported": format!("{:?}", e.repairs)}),
                            );
                        }
                    }
                }
            }
        } else if mode == Mode::C06 && e.repairs.is_empty() && !budget_exhausted {
            // no repair reported although the budget was not spent: there must be none within the bound
            if let Some(rr) = ref_repairs(drv, b, toks, &stack, i, costs, 6, 200_000) {
                st.ref_nodes += rr.nodes;
                st.ref_edges += rr.edges;
                v("c06-none", format!("error at lexeme {}: no repair reported (budget not exhausted) but {:?} (cost {}) repairs", i, rr.seqs.iter().next(), rr.cstar), json!({"error": k}));
            }
        }
        if e.repairs.is_empty() {
            if budget_exhausted {
                st.budget_exhausted += 1;
            }
            ended_with_unrepaired = Some(i);
            if k + 1 != errs.len() {
                // reported by C07
            }
            break;
        }
        // apply the first sequence to the main configuration
        if apply_seq(drv, b, inp, &mut stack, &mut i, &e.repairs[0], &mut stream).is_err() {
            return; // already reported as invalid
        }
    }
    if mode != Mode::C05 {
        return;
    }
    // after the last repaired error a plain LR parse must run to acceptance
    if ended_with_unrepaired.is_none() {
        loop {
            let la = if i < n { b.tmap[toks[i]] } else { b.grm.eof_token_idx() };
            st.driver_steps += 1;
            match drv.feed(&mut stack, la) {
                Feed::Shifted => {
                    stream.push((toks[i], inp.pos[i].0, inp.pos[i].0 + inp.pos[i].1, false));
                    i += 1;
                }
                Feed::Accept => break,
                Feed::Error => {
                    v("c05-missing-error", format!("with the first repair of every reported error applied a plain LR parse fails at lexeme {}, but no further error was reported", i), json!(null));
                    return;
                }
                Feed::Loop => {
                    st.loops += 1;
                    return;
                }
            }
        }
        if out.tree.is_none() {
            v("c05-no-value", "every error was repaired and the repaired input is accepted but no value was returned".to_string(), json!(null));
            return;
        }
    } else if out.tree.is_some() {
        v("c05-value-despite-unrepaired", "a value was returned although the last error has no repair".to_string(), json!(null));
        return;
    }
    let lexemes = stream;
    // leaves of the returned tree spell the repaired input
    if let Some(t) = &out.tree {
        let mut leaves = vec![];
        t.leaves(&mut leaves);
        if leaves != lexemes {
            v(
                "c05-leaves",
                format!("the returned tree's leaves {:?} are not the repaired input {:?} (tok, start, end, faulty)", leaves, lexemes),
                json!(null),
            );
            return;
        }
    }
    // the returned tree must be a derivation of the repaired input
    if let Some(t) = &out.tree {
        fn valid(t: &RTree, g: &RefGrammar) -> bool {
            match t {
                RTree::Leaf { tok, .. } => *tok < g.ntoks,
                RTree::Node { rule, kids } => {
                    *rule < g.nrules()
                        && g.rules[*rule].contains(
                            &kids
                                .iter()
                                .map(|k| match k {
                                    RTree::Leaf { tok, .. } => vcore::gram::Sym::T(*tok),
                                    RTree::Node { rule, .. } => vcore::gram::Sym::R(*rule),
                                })
                                .collect::<Vec<_>>(),
                        )
                        && kids.iter().all(|k| valid(k, g))
                }
            }
        }
        if !(matches!(t, RTree::Node { rule: 0, .. }) && valid(t, g)) {
            v("c05-tree", format!("the returned tree {} is not a derivation from the start rule", t.shape()), json!(null));
            return;
        }
    }
    // differential half: re-parse the repaired stream from scratch with recovery off through a
    // pass-through lexer. Only on conflict-free tables: elsewhere the reductions performed under
    // the erroneous lookahead (which are irrevocable, and from whose result the repair continues)
    // need not be the ones a parse from scratch performs under the repaired lookahead.
    if b.st.conflicts().is_some() {
        return;
    }
    st.reparsed += 1;
    let lx: Vec<Result<lrlex::DefaultLexeme<u32>, lrlex::LRLexError>> = lexemes
        .iter()
        .map(|(t, s, e, f)| {

            Ok(if *f {
                lrlex::DefaultLexeme::new_faulty(b.tmap[*t].as_storaget(), *s, e - s)
            } else {
                lrlex::DefaultLexeme::new(b.tmap[*t].as_storaget(), *s, e - s)
            })
        })
        .chain(match ended_with_unrepaired {
            // the unrepaired rest of the input follows unchanged
            Some(at) => (at..n).map(|o| Ok(lrlex::DefaultLexeme::new(b.tmap[toks[o]].as_storaget(), inp.pos[o].0, inp.pos[o].1))).collect::<Vec<_>>(),
            None => vec![],
        })
        .collect();
    let re = parse_lexemes(b, inp, &inp.text, lx, RecoveryKind::None, None);
    match ended_with_unrepaired {
        None => {
            if !(re.errors.is_empty() && re.tree == out.tree) {
                v(
                    "c05-reparse",
                    format!("re-parsing the repaired input without recovery gives {:?} / {} errors but the recovering parse returned {:?}", re.tree.as_ref().map(|t| t.shape()), re.errors.len(), out.tree.as_ref().map(|t| t.shape())),
                    json!(null),
                );
            }
        }
        Some(at) => {
            let ok = re.tree.is_none() && re.errors.len() == 1 && re.errors[0].span == errs.last().unwrap().span && re.errors[0].tok == errs.last().unwrap().tok;
            let _ = at;
            if !ok {
                v(
                    "c05-reparse-unrepaired",
                    format!("re-parsing the partly repaired input without recovery should stop at the unrepaired error (span {:?}) but gives value={} errors {:?}", errs.last().unwrap().span, re.tree.is_some(), re.errors.iter().map(|e| e.span).collect::<Vec<_>>()),
                    json!(null),
                );
            }
        }
    }
    let _ = RTree::Leaf { tok: 0, start: 0, end: 0, faulty: false };
}


// ------------------------------------------------------------------------------------------------
// Worker: one grammar per case; loops over %avoid_insert sets, cost vectors and inputs
// ------------------------------------------------------------------------------------------------

fn subsets(n: usize) -> Vec<Vec<usize>> {
    (0u32..(1 << n)).map(|m| (0..n).filter(|t| m & (1 << t) != 0).collect()).collect()
}

fn inputs_for(g: &RefGrammar, n: usize, repeat: bool) -> Vec<Vec<usize>> {
    let mut v = all_inputs(g.ntoks, n);
    if repeat {
        // many independent errors: k copies of every short string
        let mut seen: BTreeSet<Vec<usize>> = v.iter().cloned().collect();
        for w in all_inputs(g.ntoks, 3) {
            if w.is_empty() {
                continue;
            }
            for k in 2..=4 {
                let r: Vec<usize> = w.iter().cloned().cycle().take(w.len() * k).collect();
                if seen.insert(r.clone()) {
                    v.push(r);
                }
            }
        }
    }
    v
}

/// Long inputs for the rank filter: sentences of `g` of about 270 lexemes (a short prefix followed
/// by one token or a pair of tokens repeated; kept if the canonical LR(1) parser accepts them) with
/// one deletion, insertion or substitution among the first three lexemes, so that more than
/// TRY_PARSE_AT_MOST error-free lexemes follow the error and the ranking window binds.
fn long_tail_inputs(g: &RefGrammar) -> Vec<Vec<usize>> {
    let lr = vcore::refs::Lr1::build(g);
    if lr.conflicts != 0 {
        return vec![];
    }
    let total = PARSE_AT_MOST + 20;
    let nt = g.ntoks;
    let mut tails: Vec<Vec<usize>> = (0..nt).map(|t| vec![t]).collect();
    for x in 0..nt {
        for y in 0..nt {
            if x != y {
                tails.push(vec![x, y]);
            }
        }
    }
    let mut sents: Vec<Vec<usize>> = vec![];
    'outer: for p in all_inputs(nt, 2) {
        for t in &tails {
            let mut w = p.clone();
            w.extend(t.iter().cloned().cycle().take(total - total % t.len()));
            // allow a closing token after the repetition
            for close in std::iter::once(None).chain((0..nt).map(Some)) {
                let mut w2 = w.clone();
                if let Some(c) = close {
                    w2.push(c);
                }
                if lr.parse(&w2).is_ok() {
                    sents.push(w2);
                    if sents.len() >= 4 {
                        break 'outer;
                    }
                    break;
                }
            }
        }
    }
    let mut out: BTreeSet<Vec<usize>> = BTreeSet::new();
    for s in &sents {
        for i in 0..3.min(s.len()) {
            let mut d = s.clone();
            d.remove(i);
            out.insert(d);
            for t in 0..nt {
                let mut x = s.clone();
                x[i] = t;
                out.insert(x);
                let mut y = s.clone();
                y.insert(i, t);
                out.insert(y);
            }
        }
    }
    // keep the inputs that are erroneous and have a cheap repair *at the position where the error
    // is detected* (one deletion or one insertion there makes the whole input a sentence): the
    // others (the edit is only detected further on, where undoing it is no longer possible) would
    // need hundreds of deletions, which the search cannot reach within its budget
    out.into_iter()
        .filter(|w| match lr.parse(w) {
            Ok(_) => false,
            Err(e) => {
                let mut cheap = false;
                if e < w.len() {
                    let mut d = w.clone();
                    d.remove(e);
                    cheap |= lr.parse(&d).is_ok();
                }
                for t in 0..nt {
                    let mut x = w.clone();
                    x.insert(e, t);
                    cheap |= lr.parse(&x).is_ok();
                }
                cheap
            }
        })
        .collect()
}

/// The flattened list of (avoid set, cost vector, input) of one case, in a fixed order shared by
/// the worker and the parent (so that a progress mark identifies the parse that was running).
fn flat_cases(v: &Value, g0: &RefGrammar) -> Vec<(Vec<usize>, Vec<u8>, Vec<usize>)> {
    let n = v["n"].as_u64().unwrap_or(4) as usize;
    let cost_vals: Vec<u8> = v["cost_vals"].as_array().map(|a| a.iter().map(|x| x.as_u64().unwrap() as u8).collect()).unwrap_or(vec![1]);
    let repeat = v["repeat"].as_bool().unwrap_or(false);
    let only_input: Option<Vec<usize>> = v["input"].as_array().map(|a| a.iter().map(|x| x.as_u64().unwrap() as usize).collect());
    let only_costs: Option<Vec<u8>> = v["costs"].as_array().map(|a| a.iter().map(|x| x.as_u64().unwrap() as u8).collect());
    let avoid_sets: Vec<Vec<usize>> = if let Some(a) = v["avoid"].as_array() {
        vec![a.iter().map(|x| x.as_u64().unwrap() as usize).collect()]
    } else if v["avoid_all"].as_bool().unwrap_or(false) {
        subsets(g0.ntoks)
    } else {
        vec![g0.avoid_insert.clone()]
    };
    let explicit: Option<Vec<Vec<usize>>> = v["inputs"].as_array().map(|a| a.iter().map(|w| w.as_array().unwrap().iter().map(|x| x.as_u64().unwrap() as usize).collect()).collect());
    let inputs = match &only_input {
        Some(w) => vec![w.clone()],
        None if explicit.is_some() => explicit.unwrap(),
        None => {
            let mut i = inputs_for(g0, n, repeat);
            if v["long_tail"].as_bool().unwrap_or(false) {
                i.extend(long_tail_inputs(g0));
            }
            i
        }
    };
    let cost_vecs = match &only_costs {
        Some(c) => vec![c.clone()],
        None => vectors(&cost_vals, g0.ntoks),
    };
    let mut out = vec![];
    for a in &avoid_sets {
        for c in &cost_vecs {
            for w in &inputs {
                out.push((a.clone(), c.clone(), w.clone()));
            }
        }
    }
    out
}

fn run_case(v: &Value) -> Value {
    let mode = Mode::from(v["mode"].as_str().unwrap_or("C07"));
    let g0 = match RefGrammar::from_json(&v["grammar"]) {
        Some(g) => g,
        None => return json!({"err": "bad grammar"}),
    };
    let step_budget = v["step_budget"].as_u64().unwrap_or(20_000);
    // wall-clock budget of the driver for this case (default: never binds, the deterministic step
    // budget does); the deadline pass of C07 sets 1 ms so that the deadline passes during the search
    let budget_ms = v["budget_ms"].as_u64().unwrap_or(3_600_000);
    lrpar::verif_hooks::set_recovery_budget_ms(budget_ms);
    let force = v["force"].as_bool().unwrap_or(false);
    let prescreen_only = v["prescreen_only"].as_bool().unwrap_or(false);
    let from = v["from"].as_u64().unwrap_or(0) as usize;
    let to = v["to"].as_u64().map(|x| x as usize).unwrap_or(usize::MAX);
    let flat = flat_cases(v, &g0);
    let mut st = CaseStats::default();
    let mut viols: Vec<Viol> = vec![];
    let mut loops: Vec<Vec<usize>> = vec![];
    let mut nloops = 0u64;
    let mut cur_avoid: Option<Vec<usize>> = None;
    let mut built: Option<(RefGrammar, Built<u32>)> = None;
    let maxlen = flat.iter().map(|x| x.2.len()).max().unwrap_or(0);
    for (idx, (avoid, costs, w)) in flat.iter().enumerate() {
        if idx < from || idx >= to {
            continue;
        }
        if cur_avoid.as_ref() != Some(avoid) {
            let mut g = g0.clone();
            g.avoid_insert = avoid.clone();
            match build::<u32>(&g) {
                Ok(b) => built = Some((g, b)),
                Err(_) => return json!({"skipped": "not built"}),
            }
            cur_avoid = Some(avoid.clone());
        }
        let (g, b) = built.as_ref().unwrap();
        let drv = Drv::new(b, maxlen + 2);
        let ea = Earley::new(g);
        let real_toks: Vec<_> = w.iter().map(|t| b.tmap[*t]).collect();
        if !drv.terminates(&real_toks) {
            nloops += 1;
            if loops.len() < 8 && !loops.contains(w) {
                loops.push(w.clone());
            }
            if !force {
                continue;
            }
        }
        if prescreen_only && !force {
            continue;
        }
        let inp = HInput::new(w);
        st.parses += 1;
        if w.len() > PARSE_AT_MOST {
            st.long_inputs += 1;
        }
        vcore::pool::progress(&idx.to_string());
        // fresh thread: std's per-thread hash keys (owned through the getrandom shim) make the
        // result a function of (seed, case) only
        let (out, exhausted) = std::thread::scope(|s| {
            s.spawn(|| {
                lrpar::verif_hooks::set_recovery_step_budget(step_budget);
                let o = std::panic::catch_unwind(std::panic::AssertUnwindSafe(|| parse(b, &inp, RecoveryKind::CPCTPlus, Some(costs))));
                (o, lrpar::verif_hooks::recovery_step_budget_exhausted())
            })
            .join()
            .unwrap()
        });
        let out = match out {
            Ok(o) => o,
            Err(e) => {
                viols.push(Viol { avoid: avoid.clone(), key: "panic".into(), summary: format!("the recovering parse panicked: {}", vcore::report::panic_msg(&e)), input: w.clone(), costs: costs.clone(), extra: json!(null) });
                continue;
            }
        };
        let nv = viols.len();
        check_parse(mode, g, b, &drv, &ea, &inp, costs, &out, exhausted, &mut st, &mut viols);
        for x in viols[nv..].iter_mut() {
            x.avoid = avoid.clone();
        }
    }
    let nviol = viols.len();
    let vs: Vec<Value> = viols
        .into_iter()
        .take(40)
        .map(|x| json!({"key": x.key, "summary": x.summary, "input": x.input, "costs": x.costs, "avoid": x.avoid, "extra": x.extra}))
        .collect();
    let deadline_pass = v["budget_ms"].as_u64().is_some();
    json!({
        "stats": {
            "deadline_pass_parses": if deadline_pass { st.parses } else { 0 },
            "deadline_pass_parses_that_gave_up": if deadline_pass { st.gave_up } else { 0 },
            "parses_that_gave_up": st.gave_up,
            "parses": st.parses, "errors": st.errors, "multi_error_inputs": st.multi_error_inputs, "sequences": st.sequences,
            "multi_seq_errors": st.multi_seq_errors, "loops": st.loops, "budget_exhausted": st.budget_exhausted,
            "ref_nodes": st.ref_nodes, "ref_edges": st.ref_edges, "ref_beyond_bound": st.ref_beyond_bound, "c06_compared": st.c06_compared,
            "driver_steps": st.driver_steps, "values": st.values, "eof_errors": st.eof_errors, "reparsed_from_scratch": st.reparsed, "inputs_longer_than_the_ranking_window": st.long_inputs,
        },
        "viol": vs,
        "nviol": nviol,
        "loops": loops,
        "nloops": nloops,
    })
}

pub fn worker(_args: &[String]) {
    lrpar::verif_hooks::set_recovery_budget_ms(3_600_000);
    worker_main(|line| {
        let v: Value = match serde_json::from_str(line) {
            Ok(v) => v,
            Err(e) => return json!({"err": format!("bad case: {}", e)}).to_string(),
        };
        run_case(&v).to_string()
    });
}

// ------------------------------------------------------------------------------------------------
// Parent
// ------------------------------------------------------------------------------------------------

/// Does the table of `g` contain a run of reductions that never consumes its lookahead, reachable
/// by some input of length <= n? (defect model of C07-a)
fn table_has_reduction_loop(g: &RefGrammar, n: usize) -> bool {
    match build::<u32>(g) {
        Ok(b) => {
            let drv = Drv::new(&b, n + 2);
            all_inputs(g.ntoks, n).iter().any(|w| {
                let rt: Vec<_> = w.iter().map(|t| b.tmap[*t]).collect();
                !drv.terminates(&rt)
            })
        }
        Err(_) => false,
    }
}

fn grammar_space(ctx: &Ctx) -> (Vec<RefGrammar>, Vec<(String, usize)>) {
    let lists = if ctx.quick() {
        universe_list(&[(2, 2, 2, 2, 5)])
    } else {
        universe_list(&[(2, 2, 2, 2, 6), (2, 3, 2, 2, 5), (2, 2, 2, 3, 6), (3, 2, 2, 2, 4)])
    };
    let (mut gs, mut sizes) = union(lists);
    // acyclic grammars only (the statement of C07 excludes derivation cycles; C05/C06 make no
    // claim about parses that do not return)
    gs.retain(|g| !analyse(g).any_cyclic());
    sizes.push(("(after removing grammars with derivation cycles)".to_string(), gs.len()));
    let fams: Vec<(&str, Vec<RefGrammar>)> = vec![
        ("F-empty", family_empty()),
        ("F-expr", family_expr().into_iter().filter(|g| g.ntoks <= 3).collect()),
        ("F-seeds", family_seeds()),
    ];
    for (n, f) in fams {
        sizes.push((n.to_string(), f.len()));
        gs.extend(f);
    }
    (gs, sizes)
}

/// C05 quick: the acyclic grammars of U(2,2,2,3,6) whose table has conflicts (resolved the Yacc way),
/// with short inputs and unit costs. On such tables a token that has an action may still be an
/// error after the reductions it triggers - the place where a recorded edit and what the parser
/// actually does can come apart.
fn conflict_space() -> Vec<RefGrammar> {
    use rayon::prelude::*;
    let have: std::collections::HashSet<RefGrammar> = vcore::gram::Universe::new(2, 2, 2, 2, 5).enumerate().into_iter().collect();
    vcore::gram::Universe::new(2, 2, 2, 3, 6)
        .enumerate()
        .into_par_iter()
        .filter(|g| !have.contains(g) && !analyse(g).any_cyclic() && analyse(g).all_productive())
        .filter(|g| build::<u32>(g).map(|b| b.st.conflicts().is_some()).unwrap_or(false))
        .collect()
}

pub fn run(ctx: Ctx, mode: Mode) -> i32 {
    let timeout = Duration::from_secs(if ctx.quick() { 60 } else { 120 });
    if let Some(case) = load_replay(&ctx) {
        let mut c = case.clone();
        c["mode"] = json!(mode.name());
        c["force"] = json!(true);
        if c.get("step_budget").is_none() {
            // the same rule as in the exploration (quick tier's figure): the full budget only where
            // the search space is finite, otherwise the implementation's memory use explodes
            let g = replay_grammar(&case);
            let full = analyse(&g).all_productive() && build::<u32>(&g).map(|b| b.st.conflicts().is_none()).unwrap_or(false);
            c["step_budget"] = json!(if full { 20_000u64 } else { 400 });
        }
        let r = vcore::pool::confirm_alone("rec", &[], &c.to_string(), Duration::from_secs(30), 1024);
        match r {
            WOut::Ok(l) => {
                let v: Value = serde_json::from_str(&l).unwrap_or(json!({}));
                for x in v["viol"].as_array().cloned().unwrap_or_default() {
                    ctx.violation(x["key"].as_str().unwrap_or("?"), x["summary"].as_str().unwrap_or("?"), case.clone());
                }
            }
            other => {
                if mode == Mode::C07 {
                    ctx.violation("c07-hang", &format!("the parse does not return ({:?})", other), case.clone());
                }
            }
        }
        return ctx.finish(json!({"states":1,"transitions":1,"traces_validated_against_impl":1,"samples":[case]}), &[], false);
    }
    let (gs, sizes) = grammar_space(&ctx);
    let (n_generic, cost_vals, step_budget): (usize, Vec<u8>, u64) = match (mode, ctx.quick()) {
        (Mode::C07, true) => (5, vec![1], 20_000),
        // (the step budget stays at 20,000 in every tier: the implementation's bucket vector grows
        // quadratically with the steps taken, and at 100,000 steps with token costs of 2 a worker
        // runs into its address-space limit - which would read as "the parse does not return")
        (Mode::C07, false) => (6, vec![1, 2], 20_000),
        (_, true) => (4, vec![1, 2], 20_000),
        (_, false) => (5, vec![1, 2, 3], 20_000),
    };
    let mk_case = |g: &RefGrammar| -> Value {
        let fam = g.ntoks > 3 || g.nrules() > 3;
        let n = if g.ntoks <= 2 { n_generic } else if g.ntoks == 3 { n_generic.min(5) - if ctx.quick() { 1 } else { 0 } } else { 3 };
        json!({
            "mode": mode.name(),
            "grammar": g.to_json(),
            "n": n,
            // thorough: three cost values on one-token grammars, two on two-token grammars
            "cost_vals": if ctx.quick() { if g.ntoks <= 3 { cost_vals.clone() } else { vec![1u8] } } else if g.ntoks <= 1 { cost_vals.clone() } else if g.ntoks == 2 { vec![1u8, 2] } else { vec![1u8] },
            // grammars with a rule that derives no string have an infinite search space: the
            // search always runs into the budget, so keep it (and its memory) small there
            // (also: a conflict-resolved table may be unable to parse some sentences at all); the
            // implementation's bucket vector grows quadratically in the number of steps
            "step_budget": if analyse(g).all_productive() && build::<u32>(g).map(|b| b.st.conflicts().is_none()).unwrap_or(false) { step_budget } else { 400 },
            "repeat": mode == Mode::C07 && (fam || g.nsyms() >= 5),
            // C06: long error-free tails behind an early error, so that the ranking window
            // (TRY_PARSE_AT_MOST) binds; conflict-free productive grammars of <= 3 tokens
            "long_tail": mode == Mode::C06 && g.ntoks <= 3 && analyse(g).all_productive() && build::<u32>(g).map(|b| b.st.conflicts().is_none()).unwrap_or(false),
            "avoid_all": mode == Mode::C06 && g.ntoks <= 2 && g.nsyms() <= 4,
            // quick tier: on a table with a reduction loop (known finding C07-a) any recovering
            // parse may run into the loop and has to be killed by the memory limit, which is slow;
            // such grammars only get the plain-parse screen there (the thorough tier runs them)
            "prescreen_only": table_has_reduction_loop(g, n + 1),
        })
    };
    use rayon::prelude::*;
    let mut gs = gs;
    let mut base_cases: Vec<Value> = gs.par_iter().map(|g| mk_case(g)).collect();
    if !ctx.quick() {
        // thorough tier: the first 40 grammars whose table has a reduction loop (known finding
        // C07-a) are run in full - every recovering parse that meets the loop has to be killed by
        // the watchdog and its batch resubmitted, minutes per grammar - the others get the
        // plain-parse screen only, as in the quick tier
        let mut full = 0;
        for c in base_cases.iter_mut() {
            if c["prescreen_only"] == json!(true) && full < 40 {
                c["prescreen_only"] = json!(false);
                full += 1;
            }
        }
    }
    if mode == Mode::C05 && ctx.quick() {
        let extra = conflict_space();
        ctx.set("conflict_tables_of_U(2,2,2,3,6)_with_inputs_up_to_3_and_unit_costs", extra.len() as u64);
        let cases: Vec<Value> = extra
            .par_iter()
            .map(|g| {
                let mut c = mk_case(g);
                c["n"] = json!(3);
                c["cost_vals"] = json!([1]);
                c
            })
            .collect();
        gs.extend(extra);
        base_cases.extend(cases);
    }
    if mode == Mode::C07 {
        // Deadline pass: the environment answer "the recovery deadline passes during the search".
        // Each grammar of <= 2 tokens gets one more token that no production mentions; inputs are
        // w1 u^k w2 (k = 40: every u has to be deleted, the search cannot finish) and the driver's
        // wall-clock budget is 1 ms with no step limit. Whatever the clock does, the result must
        // satisfy the same invariants; with the deadline passing, the parse has to end with an
        // error without repairs and without a value.
        let mut extra_g = vec![];
        let mut extra_c = vec![];
        for (gi, g) in gs.iter().enumerate() {
            if g.ntoks > 2 || base_cases[gi]["prescreen_only"] == json!(true) || (ctx.quick() && g.nsyms() > 4) {
                continue;
            }
            let mut g2 = g.clone();
            g2.ntoks += 1;
            let u = g.ntoks;
            let mut inputs: Vec<Vec<usize>> = vec![];
            for w1 in all_inputs(g.ntoks, 1) {
                for w2 in all_inputs(g.ntoks, 1) {
                    let mut w = w1.clone();
                    w.extend(std::iter::repeat(u).take(40));
                    w.extend(w2);
                    inputs.push(w);
                }
            }
            extra_c.push(json!({
                "mode": mode.name(),
                "grammar": g2.to_json(),
                "inputs": inputs,
                "cost_vals": [1],
                "step_budget": u64::MAX,
                "budget_ms": 1,
            }));
            extra_g.push(g2);
        }
        ctx.set("deadline_pass_grammars", extra_g.len() as u64);
        gs.extend(extra_g);
        base_cases.extend(extra_c);
    }
    ctx.set("grammars_screened_only_because_table_has_reduction_loop", base_cases.iter().filter(|c| c["prescreen_only"] == json!(true)).count() as u64);
    let mem_mb = 384;
    let mut tot: std::collections::BTreeMap<String, u64> = Default::default();
    let mut not_built = 0u64;
    let mut loop_pairs: Vec<(usize, Vec<usize>)> = vec![];
    let mut nloop_pairs = 0u64;
    let mut hangs = 0u64;
    // (grammar index, from, to): a batch that dies is split around the parse that was running
    // (named by the worker's last progress mark); the worker is deterministic, so the prefix is
    // re-run only to recover its statistics
    let mut pending: Vec<(usize, usize, usize)> = (0..gs.len()).map(|gi| (gi, 0usize, usize::MAX)).collect();
    let mut rounds = 0;
    while !pending.is_empty() {
        rounds += 1;
        if rounds > 400 {
            machinery("too many resubmission rounds");
        }
        let cases: Vec<String> = pending
            .iter()
            .map(|(gi, from, to)| {
                let mut c = base_cases[*gi].clone();
                c["from"] = json!(from);
                if *to != usize::MAX {
                    c["to"] = json!(to);
                }
                c.to_string()
            })
            .collect();
        let (results, progress) = vcore::pool::run_pool_progress("rec", &[], &cases, 16, timeout, mem_mb);
        let mut next: Vec<(usize, usize, usize)> = vec![];
        for (k, r) in results.iter().enumerate() {
            let (gi, from, to) = pending[k];
            match r {
                WOut::Ok(l) => {
                    let v: Value = serde_json::from_str(l).unwrap_or_else(|_| machinery("unparsable worker output"));
                    if v.get("err").is_some() {
                        machinery(&format!("worker error: {}", v["err"]));
                    }
                    if v.get("skipped").is_some() {
                        not_built += 1;
                        continue;
                    }
                    if let Some(m) = v["stats"].as_object() {
                        for (k, x) in m {
                            *tot.entry(k.clone()).or_insert(0) += x.as_u64().unwrap_or(0);
                        }
                    }
                    for x in v["viol"].as_array().cloned().unwrap_or_default() {
                        let key = x["key"].as_str().unwrap_or("?").to_string();
                        ctx.violation(
                            &key,
                            &format!("{} [input {} costs {}] {}", x["summary"].as_str().unwrap_or("?"), x["input"], x["costs"], gs[gi].short()),
                            {
                                let mut c = json!({"grammar": gs[gi].to_json(), "input": x["input"], "costs": x["costs"], "avoid": x["avoid"], "extra": x["extra"]});
                                // the deadline pass is replayed under the same budgets
                                c["step_budget"] = base_cases[gi]["step_budget"].clone();
                                if base_cases[gi].get("budget_ms").is_some() {
                                    c["budget_ms"] = base_cases[gi]["budget_ms"].clone();
                                }
                                c
                            },
                        );
                    }
                    let nv = v["nviol"].as_u64().unwrap_or(0);
                    if nv > 40 {
                        ctx.count("violations_not_listed_individually", nv - 40);
                    }
                    nloop_pairs += v["nloops"].as_u64().unwrap_or(0);
                    for w in v["loops"].as_array().cloned().unwrap_or_default() {
                        let w: Vec<usize> = w.as_array().unwrap().iter().map(|x| x.as_u64().unwrap() as usize).collect();
                        if !loop_pairs.contains(&(gi, w.clone())) {
                            loop_pairs.push((gi, w));
                        }
                    }
                }
                other => {
                    let Some(mark) = progress[k].as_ref().and_then(|p| p.parse::<usize>().ok()) else {
                        machinery(&format!("worker died outside a parse ({:?}) on {}", other, gs[gi].short()));
                    };
                    hangs += 1;
                    let flat = flat_cases(&base_cases[gi], &gs[gi]);
                    let (avoid, costs, w) = flat[mark].clone();
                    if std::env::var("VERIF_DEBUG").is_ok() {
                        eprintln!("[rec] no answer ({:?}) at parse {} input len {} {:?} costs {:?} for {}", other, mark, w.len(), &w[..w.len().min(6)], costs, gs[gi].short());
                    }
                    if mode == Mode::C07 {
                        let summary = format!(
                            "the recovering parse of {:?} (costs {:?}) does not return ({}) for {}",
                            w,
                            costs,
                            if *other == WOut::Timeout { "no answer within the limit".to_string() } else { "memory limit exceeded".to_string() },
                            gs[gi].short()
                        );
                        let case = json!({"grammar": gs[gi].to_json(), "input": w, "costs": costs, "avoid": avoid, "kind": "hang"});
                        if table_has_reduction_loop(&gs[gi], 6) {
                            ctx.defect("eps_reduction_loop", &summary, case);
                        } else {
                            ctx.violation("c07-hang", &summary, case);
                        }
                    }
                    if mark > from {
                        next.push((gi, from, mark));
                    }
                    if mark + 1 < to.min(flat.len()) {
                        next.push((gi, mark + 1, to));
                    }
                }
            }
        }
        pending = next;
    }
    ctx.set("resubmission_rounds", rounds as u64);
    eprintln!("[rec] pool done {:?}: rounds {} hangs {} flagged {}", ctx.start.elapsed(), rounds, hangs, nloop_pairs);
    ctx.set("parses_that_did_not_return", hangs);
    ctx.set("table_input_pairs_flagged_by_reduction_run_bound", nloop_pairs);
    if mode == Mode::C07 {
        // confirm the first flagged pairs on the real parser (memory-limited child), attribute the
        // rest to the same defect model
        let nconf = loop_pairs.len().min(if ctx.quick() { 6 } else { 24 });
        let ccases: Vec<String> = loop_pairs
            .iter()
            .take(nconf)
            .map(|(gi, w)| json!({"mode": "C07", "grammar": gs[*gi].to_json(), "input": w, "costs": vec![1u8; gs[*gi].ntoks], "force": true, "step_budget": step_budget}).to_string())
            .collect();
        let cres = run_pool("rec", &[], &ccases, 6, Duration::from_secs(15), 384);
        for (k, r) in cres.iter().enumerate() {
            if let WOut::Ok(_) = r {
                machinery(&format!("reduction-run bound flagged {:?} on {} but the real parser returned", loop_pairs[k].1, gs[loop_pairs[k].0].short()));
            }
        }
        ctx.set("flagged_pairs_confirmed_on_real_parser", nconf as u64);
        for (gi, w) in &loop_pairs {
            ctx.defect(
                "eps_reduction_loop",
                &format!("the plain LR parse of {:?} never returns (unbounded run of reductions) for {}", w, gs[*gi].short()),
                json!({"grammar": gs[*gi].to_json(), "input": w, "kind": "loop"}),
            );
        }
    }
    let get = |k: &str| tot.get(k).cloned().unwrap_or(0);
    // vacuity guards
    if get("errors") == 0 || get("multi_error_inputs") == 0 || get("eof_errors") == 0 {
        machinery("vacuous exploration: no errors / no multi-error inputs / no end-of-input errors");
    }
    if mode == Mode::C07 && get("deadline_pass_parses_that_gave_up") == 0 {
        machinery("vacuous exploration: the recovery deadline never passed in the deadline pass");
    }
    if mode != Mode::C07 && get("multi_seq_errors") == 0 {
        machinery("vacuous exploration: no error with >= 2 repair sequences");
    }
    if mode == Mode::C06 && get("inputs_longer_than_the_ranking_window") == 0 {
        machinery("vacuous exploration: no input on which the ranking window binds");
    }
    if mode == Mode::C06 && get("c06_compared") == 0 {
        machinery("vacuous exploration: reference search never ran");
    }
    for g in gs.iter().filter(|g| g.nsyms() >= 4).take(2) {
        ctx.sample(json!({"grammar": g.short(), "inputs": "every token string up to the bound, every cost vector"}));
    }
    let (states, transitions) = match mode {
        Mode::C06 => (get("ref_nodes").max(1), get("ref_edges").max(1)),
        _ => (get("errors").max(1), get("driver_steps").max(get("parses")).max(1)),
    };
    let cov = json!({
        "states": states,
        "transitions": transitions,
        "traces_validated_against_impl": match mode { Mode::C06 => get("c06_compared"), _ => get("parses") },
        "evaluations": get("parses"),
        "distinct_nontrivial": match mode { Mode::C07 => get("multi_error_inputs"), _ => get("multi_seq_errors") },
        "rule": match mode {
            Mode::C07 => "(grammar, costs, input) parsed with CPCT+; non-trivial = inputs with >= 2 reported errors",
            _ => "(grammar, costs, input) parsed with CPCT+; non-trivial = errors with >= 2 reported repair sequences",
        },
        "universes": sizes.iter().map(|(n, s)| json!({"name": n, "size": s})).collect::<Vec<_>>(),
        "grammars": gs.len(),
        "grammars_rejected_by_table_construction": not_built,
        "totals": tot,
        "cost_values": cost_vals,
        "input_length_bound": n_generic,
        "recovery_step_budget": step_budget,
        "states_note": match mode { Mode::C06 => "states/transitions = nodes/edges of the reference repair search", _ => "states = error configurations replayed; transitions = reference LR driver steps" },
    });
    ctx.finish(
        cov,
        &[
            "wall-clock recovery budget replaced by a deterministic step budget (hooks H1/H2); an empty repair list caused by the step budget is never a verdict",
            "(table, input) pairs on which the plain LR loop does not return are C07's subject and excluded from C05/C06",
            "hash seed owned through the getrandom shim; every parse runs on a fresh thread",
        ],
        true,
    )
}

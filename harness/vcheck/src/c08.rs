//! C08 — actions run once per reduction, bottom-up, with child values and the matched span.
//!
//! Every grammar of the universes + the empty-production family, every input up to the bound,
//! recovery off and on (both copies of the reduce code run): `parse_actions` with one recording
//! closure per production. The expected log is recomputed from the returned value (a tree of call
//! ids): post-order, one call per node, arguments = children, span = frontier extent.

use crate::common::*;
use cfgrammar::{RIdx, Span};
use lrlex::{DefaultLexeme, DefaultLexerTypes, LRNonStreamingLexer};
use lrpar::parser::AStackType;
use lrpar::{Lexeme, NonStreamingLexer, RTParserBuilder, RecoveryKind};
use rayon::prelude::*;
use serde_json::json;
use std::cell::RefCell;
use vcore::gram::{RefGrammar, Sym, all_inputs, family_empty, family_empty2, family_seeds};
use vcore::real::{Built, Drv, HInput, RTree, build, parse};
use vcore::refs::analyse;
use vcore::report::Ctx;

type LT = DefaultLexerTypes<u32>;
const PARAM: u64 = 0xC08;

#[derive(Clone, Debug, PartialEq)]
enum Arg {
    Lex { tok: usize, start: usize, end: usize, faulty: bool },
    Val(usize),
}

#[derive(Clone, Debug)]
struct Entry {
    pidx: usize,
    ridx: usize,
    span: (usize, usize),
    args: Vec<Arg>,
    param: u64,
}

#[derive(Default, Clone)]
struct Stats {
    grammars: u64,
    parses: u64,
    values: u64,
    values_after_recovery: u64,
    calls: u64,
    empty_prod_calls: u64,
    leading_empty_child_calls: u64,
    states: u64,
    diverged_by_arbitrary_choice: u64,
}

impl Stats {
    fn merge(mut self, o: Stats) -> Stats {
        self.grammars += o.grammars;
        self.parses += o.parses;
        self.values += o.values;
        self.values_after_recovery += o.values_after_recovery;
        self.calls += o.calls;
        self.empty_prod_calls += o.empty_prod_calls;
        self.leading_empty_child_calls += o.leading_empty_child_calls;
        self.states += o.states;
        self.diverged_by_arbitrary_choice += o.diverged_by_arbitrary_choice;
        self
    }
}

fn run_actions(b: &Built<u32>, inp: &HInput, rk: RecoveryKind) -> (Option<usize>, usize, Vec<Entry>, Vec<vcore::real::ErrOut>) {
    let log: RefCell<Vec<Entry>> = RefCell::new(vec![]);
    let lexemes: Vec<Result<DefaultLexeme<u32>, lrlex::LRLexError>> = inp.lexemes(b).into_iter().map(Ok).collect();
    let lexer: LRNonStreamingLexer<LT> = LRNonStreamingLexer::new(&inp.text, lexemes, cfgrammar::NewlineCache::new());
    let nprods = usize::from(b.grm.prods_len());
    type ActFn<'x> = Box<dyn Fn(RIdx<u32>, &dyn NonStreamingLexer<LT>, Span, std::vec::Drain<AStackType<DefaultLexeme<u32>, usize>>, u64) -> usize + 'x>;
    let mut boxed: Vec<ActFn> = vec![];
    for p in 0..nprods {
        let log = &log;
        boxed.push(Box::new(move |ridx, _lexer, span, args, param| {
            let args: Vec<Arg> = args
                .map(|a| match a {
                    AStackType::ActionType(v) => Arg::Val(v),
                    AStackType::Lexeme(l) => Arg::Lex { tok: b.ref_tok(cfgrammar::TIdx(l.tok_id())), start: l.span().start(), end: l.span().end(), faulty: l.faulty() },
                })
                .collect();
            let mut lg = log.borrow_mut();
            lg.push(Entry { pidx: p, ridx: usize::from(ridx), span: (span.start(), span.end()), args, param });
            lg.len() - 1
        }));
    }
    let refs: Vec<&dyn Fn(RIdx<u32>, &dyn NonStreamingLexer<LT>, Span, std::vec::Drain<AStackType<DefaultLexeme<u32>, usize>>, u64) -> usize> = boxed.iter().map(|b| b.as_ref()).collect();
    let pb = RTParserBuilder::new(&b.grm, &b.st).recoverer(rk);
    let (val, errs) = pb.parse_actions(&lexer, &refs, PARAM);
    let nerr = errs.len();
    let eo = vcore::real::conv_errors(b, inp, &errs);
    drop(refs);
    drop(boxed);
    (val, nerr, log.into_inner(), eo)
}

/// frontier extent of call `id`: (first lexeme start, last lexeme end) over all lexemes / over
/// real (non-faulty) lexemes only; None = derived nothing
fn frontier(log: &[Entry], id: usize, real_only: bool) -> Option<(usize, usize)> {
    let mut first = None;
    let mut last = None;
    fn walk(log: &[Entry], id: usize, real_only: bool, first: &mut Option<usize>, last: &mut Option<usize>) {
        for a in &log[id].args {
            match a {
                Arg::Lex { start, end, faulty, .. } => {
                    if real_only && *faulty {
                        continue;
                    }
                    if first.is_none() {
                        *first = Some(*start);
                    }
                    *last = Some(*end);
                }
                Arg::Val(v) => walk(log, *v, real_only, first, last),
            }
        }
    }
    walk(log, id, real_only, &mut first, &mut last);
    match (first, last) {
        (Some(f), Some(l)) => Some((f, l)),
        _ => None,
    }
}

fn to_rtree(b: &Built<u32>, log: &[Entry], id: usize) -> RTree {
    let e = &log[id];
    RTree::Node {
        rule: *b.rinv.get(&e.ridx).unwrap_or(&usize::MAX),
        kids: e
            .args
            .iter()
            .map(|a| match a {
                Arg::Lex { tok, start, end, faulty } => RTree::Leaf { tok: *tok, start: *start, end: *end, faulty: *faulty },
                Arg::Val(v) => to_rtree(b, log, *v),
            })
            .collect(),
    }
}

fn check_grammar(ctx: &Ctx, g: &RefGrammar, n: usize, only: Option<(&Vec<usize>, bool)>) -> Stats {
    ctx.guard(
        &format!("building the table of / parsing with {}", g.short()),
        || json!({"grammar": g.to_json(), "input": [], "recovery": false}),
        Stats::default(),
        || check_grammar_inner(ctx, g, n, only),
    )
}

fn check_grammar_inner(ctx: &Ctx, g: &RefGrammar, n: usize, only: Option<(&Vec<usize>, bool)>) -> Stats {
    let mut st = Stats::default();
    st.grammars = 1;
    let b: Built<u32> = match build(g) {
        Ok(b) => b,
        Err(vcore::real::BuildErr::Table(_)) => return st,
        Err(e) => crate::common::machinery(&format!("the harness rendered a grammar it cannot build / map: {}: {:?}", g.short(), e)),
    };
    st.states = b.nstates() as u64;
    let an = analyse(g);
    if an.any_cyclic() {
        return st;
    }
    let safe_for_recovery = b.st.conflicts().is_none() && an.all_productive();
    let drv = Drv::new(&b, n + 2);
    let flat = g.flat_prods();
    let inputs: Vec<Vec<usize>> = match only {
        Some((w, _)) => vec![w.clone()],
        None => all_inputs(g.ntoks, n),
    };
    for w in &inputs {
        let rt: Vec<_> = w.iter().map(|t| b.tmap[*t]).collect();
        if !drv.terminates(&rt) {
            continue;
        }
        let inp = HInput::new(w);
        for recov in [false, true] {
            if let Some((_, r)) = only {
                if r != recov {
                    continue;
                }
            }
            if recov && !safe_for_recovery {
                continue;
            }
            let rk = if recov { RecoveryKind::CPCTPlus } else { RecoveryKind::None };
            lrpar::verif_hooks::set_recovery_step_budget(5_000);
            let (val, nerr, log, errs) = run_actions(&b, &inp, rk);
            st.parses += 1;
            st.calls += log.len() as u64;
            let case = || json!({"grammar": g.to_json(), "input": w, "recovery": recov});
            let ctxs = format!("[input {:?}, recovery {}] {}", w, if recov { "on" } else { "off" }, g.short());
            // per-call consistency (also for parses that returned no value)
            for (id, e) in log.iter().enumerate() {
                if e.pidx >= flat.len() {
                    ctx.violation("c08-start-prod", &format!("an action was called for the added start production {}", ctxs), case());
                    continue;
                }
                let (r, i) = flat[e.pidx];
                let rhs = &g.rules[r][i];
                if b.rinv.get(&e.ridx) != Some(&r) {
                    ctx.violation("c08-rule-arg", &format!("action of production {} was passed rule {} {}", e.pidx, e.ridx, ctxs), case());
                }
                if e.param != PARAM {
                    ctx.violation("c08-param", &format!("action of production {} was passed parameter {:#x} {}", e.pidx, e.param, ctxs), case());
                }
                let kinds_ok = e.args.len() == rhs.len()
                    && e.args.iter().zip(rhs.iter()).all(|(a, s)| match (a, s) {
                        (Arg::Lex { tok, .. }, Sym::T(t)) => tok == t,
                        (Arg::Val(v), Sym::R(x)) => *v < id && log[*v].pidx < flat.len() && flat[log[*v].pidx].0 == *x,
                        _ => false,
                    });
                if !kinds_ok {
                    ctx.violation(
                        "c08-args",
                        &format!("action of production {} ({:?}) was passed arguments {:?} {}", e.pidx, rhs, e.args, ctxs),
                        case(),
                    );
                    continue;
                }
                // span
                let all = frontier(&log, id, false);
                let real = frontier(&log, id, true);
                let ok = match all {
                    None => e.span.0 == e.span.1,
                    Some(f) => e.span == f || real.map(|r| e.span == r).unwrap_or(false) || (real.is_none() && e.span.0 == e.span.1),
                };
                if rhs.is_empty() {
                    st.empty_prod_calls += 1;
                }
                if matches!(e.args.first(), Some(Arg::Val(v)) if frontier(&log, *v, false).is_none()) && all.is_some() {
                    st.leading_empty_child_calls += 1;
                }
                if !ok {
                    let summary = format!(
                        "action of production {} ({} -> {:?}) was passed span {:?} but the production derived {} {}",
                        e.pidx,
                        g.rule_name(r),
                        rhs,
                        e.span,
                        match all {
                            None => "no lexeme (span must be zero-length)".to_string(),
                            Some(f) => format!("lexemes spanning {:?}", f),
                        },
                        ctxs
                    );
                    ctx.violation("c08-span", &summary, case());
                }
            }
            // value-level checks
            match val {
                None => {
                    if nerr == 0 {
                        ctx.violation("c08-none", &format!("no value and no error {}", ctxs), case());
                    }
                }
                Some(root) => {
                    st.values += 1;
                    if recov && nerr > 0 {
                        st.values_after_recovery += 1;
                    }
                    // post-order traversal of the value must be exactly the log order: every call
                    // once, bottom-up, left to right
                    let mut order = vec![];
                    fn post(log: &[Entry], id: usize, out: &mut Vec<usize>) {
                        for a in &log[id].args {
                            if let Arg::Val(v) = a {
                                post(log, *v, out);
                            }
                        }
                        out.push(id);
                    }
                    if root >= log.len() {
                        ctx.violation("c08-root", &format!("returned value is not an action result {}", ctxs), case());
                        continue;
                    }
                    post(&log, root, &mut order);
                    let expect: Vec<usize> = (0..log.len()).collect();
                    if order != expect {
                        ctx.violation(
                            "c08-order",
                            &format!("actions were not called once each in bottom-up left-to-right order of the final tree: post-order of the value is {:?}, {} calls were made {}", order, log.len(), ctxs),
                            case(),
                        );
                        continue;
                    }
                    if flat[log[root].pidx].0 != 0 {
                        ctx.violation("c08-root-rule", &format!("the value was built by a production of rule {} {}", flat[log[root].pidx].0, ctxs), case());
                    }
                    // same tree as the generic parse-tree mode
                    let generic = parse(&b, &inp, rk, None);
                    let mine = to_rtree(&b, &log, root);
                    // which of several equal-rank repairs is applied is documented as arbitrary:
                    // compare only when both runs applied the same first sequences
                    let same_choices = generic.errors.len() == errs.len()
                        && generic.errors.iter().zip(errs.iter()).all(|(a, b)| a.lex_idx == b.lex_idx && a.repairs.first() == b.repairs.first());
                    if !same_choices {
                        st.diverged_by_arbitrary_choice += 1;
                    } else if generic.tree.as_ref() != Some(&mine) || generic.errors.len() != nerr {
                        ctx.violation(
                            "c08-generic",
                            &format!("tree built by actions {} differs from parse_map's {:?} {}", mine.shape(), generic.tree.as_ref().map(|t| t.shape()), ctxs),
                            case(),
                        );
                    }
                }
            }
        }
    }
    lrpar::verif_hooks::set_recovery_step_budget(u64::MAX);
    st
}

pub fn run(ctx: Ctx) -> i32 {
    lrpar::verif_hooks::set_recovery_budget_ms(3_600_000);
    if let Some(case) = load_replay(&ctx) {
        let g = replay_grammar(&case);
        let w: Vec<usize> = case["input"].as_array().map(|a| a.iter().map(|x| x.as_u64().unwrap() as usize).collect()).unwrap_or_default();
        let r = case["recovery"].as_bool().unwrap_or(false);
        check_grammar(&ctx, &g, w.len().max(1), Some((&w, r)));
        return ctx.finish(json!({"states":1,"transitions":1,"traces_validated_against_impl":1,"samples":[case]}), &[], false);
    }
    let lists = if ctx.quick() {
        universe_list(&[(2, 2, 2, 2, 6), (2, 2, 2, 3, 5), (3, 2, 2, 2, 5)])
    } else {
        universe_list(&[(2, 2, 2, 2, 6), (2, 3, 2, 2, 6), (3, 2, 2, 2, 6), (2, 2, 2, 3, 7)])
    };
    let (mut gs, mut sizes) = union(lists);
    for (n, f) in [("F-empty", family_empty()), ("F-empty2", family_empty2()), ("F-seeds", family_seeds())] {
        sizes.push((n.to_string(), f.len()));
        gs.extend(f);
    }
    let nb = if ctx.quick() { 4 } else { 5 };
    let stats = gs
        .par_iter()
        .map(|g| {
            let n = if g.ntoks <= 2 { nb + 1 } else if g.ntoks == 3 { nb } else { 3 };
            check_grammar(&ctx, g, n, None)
        })
        .reduce(Stats::default, |a, b| a.merge(b));
    if stats.values == 0 || stats.values_after_recovery == 0 || stats.empty_prod_calls == 0 || stats.leading_empty_child_calls == 0 {
        machinery("vacuous exploration (C08)");
    }
    for g in family_empty().iter().take(3) {
        ctx.sample(json!({"grammar": g.short(), "inputs": "every token string up to the bound, recovery off and on"}));
    }
    let cov = json!({
        "states": stats.states,
        "transitions": stats.calls,
        "traces_validated_against_impl": stats.parses,
        "evaluations": stats.parses,
        "distinct_nontrivial": stats.leading_empty_child_calls,
        "rule": "(grammar, input, recovery) -> one parse_actions run with recording closures; non-trivial = calls whose first child derived no lexeme while the production derived some (the shape where span bookkeeping goes wrong)",
        "universes": sizes.iter().map(|(n, s)| json!({"name": n, "size": s})).collect::<Vec<_>>(),
        "grammars": stats.grammars,
        "parses": stats.parses,
        "parses_with_value": stats.values,
        "values_after_recovery": stats.values_after_recovery,
        "action_calls": stats.calls,
        "calls_of_empty_productions": stats.empty_prod_calls,
        "calls_with_leading_empty_child": stats.leading_empty_child_calls,
        "tree_comparisons_skipped_because_runs_chose_different_equal_rank_repairs": stats.diverged_by_arbitrary_choice,
    });
    ctx.finish(cov, &["a span is accepted if it is the extent of all derived lexemes or of the real (non-inserted) ones; a production that derived nothing may place its zero-length span anywhere", "recovery-on runs only on conflict-free tables of productive grammars (elsewhere the parse may not return: C07)"], true)
}

//! C20 — results are independent of the index storage width; too-small widths are refused cleanly.
//!
//! (1) every grammar of the quick universe built as u8 / u16 / u32: complete query dumps and all
//! short parses must be identical; (2) boundary families parameterised by a count c around 255 and
//! 65535 (c rules, c tokens, c productions, one production of c symbols, exactly c LR states, a
//! lexer with c rules), each built in all three widths inside a watched child process: either the
//! build succeeds, reports the model's sizes and agrees with the u32 build, or it is refused with
//! one of the documented panics.

use crate::common::*;
use cfgrammar::TIdx;
use cfgrammar::yacc::YaccGrammar;
use lrlex::{DefaultLexeme, DefaultLexerTypes, LRNonStreamingLexer, LRNonStreamingLexerDef, LexerDef};
use lrpar::{Lexeme, RTParserBuilder, RecoveryKind};
use lrtable::{Minimiser, StateTable, from_yacc};
use rayon::prelude::*;
use serde_json::{Value, json};
use std::panic::{AssertUnwindSafe, catch_unwind};
use std::time::Duration;
use vcore::dump::{canonical_order, dump_grammar, dump_graph, dump_graph_perm, dump_table, dump_table_perm};
use vcore::gram::{Universe, all_inputs};
use vcore::pool::{WOut, run_pool, worker_main};
use vcore::real::YK;
use vcore::report::{Ctx, panic_msg};

fn fnv(s: &str) -> u64 {
    let mut h: u64 = 0xcbf29ce484222325;
    for b in s.bytes() {
        h ^= b as u64;
        h = h.wrapping_mul(0x100000001b3);
    }
    h
}

fn is_documented_refusal(msg: &str) -> bool {
    msg.starts_with("StorageT is not big enough")
        || msg.contains("StorageT::try_from failed")
        || msg.contains("assertion failed: states.len() < num_traits::cast(StorageT::max_value())")
        || msg.contains("assertion failed: sg.all_states_len().as_storaget() < StorageT::max_value() - StorageT::one()")
}

/// (text, expected user rules, user tokens, user productions)
fn family(fam: &str, c: usize) -> (String, usize, usize, usize) {
    let mut s = String::new();
    match fam {
        "rules" => {
            // c rules, only the first reachable (unreachable rules add no LR state)
            s.push_str("%start R0\n%expect-unused");
            for r in 1..c {
                s.push_str(&format!(" R{}", r));
            }
            s.push_str("\n%%\n");
            for r in 0..c {
                s.push_str(&format!("R{}: 'a';\n", r));
            }
            (s, c, 1, c)
        }
        "tokens" => {
            s.push_str("%start S\n%token");
            for t in 0..c {
                s.push_str(&format!(" k{}", t));
            }
            s.push_str("\n%%\nS: k0;\n");
            (s, 1, c, 1)
        }
        "prods" => {
            // c productions: one in S, c-1 (identical) in an unreachable rule
            s.push_str("%start S\n%expect-unused X\n%%\nS: 'a';\nX: 'a'");
            for _ in 2..c {
                s.push_str(" | 'a'");
            }
            s.push_str(";\n");
            (s, 2, 1, c)
        }
        "symbols" => {
            // one production of c symbols, in an unreachable rule
            s.push_str("%start S\n%expect-unused X\n%%\nS: 'a';\nX:");
            for _ in 0..c {
                s.push_str(" 'a'");
            }
            s.push_str(";\n");
            (s, 2, 1, 2)
        }
        "states" => {
            // one production of c-2 tokens => exactly c LR states
            s.push_str("%start S\n%%\nS:");
            for _ in 0..c.saturating_sub(2) {
                s.push_str(" 'a'");
            }
            s.push_str(";\n");
            (s, 1, 1, 1)
        }
        "ecosymbols" => {
            // Eco: every token of a production is followed by a reference to the implicit rule, so a
            // production of t tokens compiles to 2 t symbols. X has ceil(c / 2) tokens (about c
            // symbols once compiled); Y has one symbol more than X in the source but only rule
            // references (no expansion): the longest production of the source is not the longest
            // compiled one.
            let t = c.div_ceil(2);
            s.push_str("%implicit_tokens ws\n%start S\n%expect-unused X Y\n%%\nS: 'a';\nX:");
            for _ in 0..t {
                s.push_str(" 'a'");
            }
            s.push_str(";\nY:");
            for _ in 0..t + 1 {
                s.push_str(" S");
            }
            s.push_str(";\n");
            (s, usize::MAX, usize::MAX, usize::MAX)
        }
        "ecoprods" => {
            // Eco with one implicit token: the generator adds three rules with four productions (^,
            // ^~, ~ with its empty alternative) - c productions in total with c - 5 alternatives of an
            // unreachable rule X (few LR states, so only the production count is at the boundary)
            s.push_str("%implicit_tokens ws\n%start S\n%expect-unused X\n%%\nS: 'a';\nX: 'a'");
            for _ in 1..c.saturating_sub(5) {
                s.push_str(" | 'a'");
            }
            s.push_str(";\n");
            (s, usize::MAX, usize::MAX, usize::MAX)
        }
        _ => unreachable!(),
    }
}

fn family_kind(fam: &str) -> cfgrammar::yacc::YaccKind {
    if fam == "ecosymbols" || fam == "ecoprods" { cfgrammar::yacc::YaccKind::Eco } else { YK }
}

macro_rules! build_width {
    ($T:ty, $text:expr, $inputs:expr) => {
        build_width!($T, $text, $inputs, YK)
    };
    ($T:ty, $text:expr, $inputs:expr, $yk:expr) => {{
        let text: &str = $text;
        let r = catch_unwind(AssertUnwindSafe(|| {
            let grm = YaccGrammar::<$T>::new_with_storaget($yk, text).map_err(|e| format!("grammar error: {:?}", e.iter().map(|x| x.to_string()).collect::<Vec<_>>()))?;
            let (sg, st) = from_yacc(&grm, Minimiser::Pager).map_err(|e| format!("table error: {}", e))?;
            let n = usize::from(sg.all_states_len());
            let dump = format!("{}{}{}", dump_grammar(&grm), dump_table(&grm, &st, n, false), dump_graph(&sg));
            // the same with states renumbered canonically (breadth-first, edges in symbol order)
            let (order, inv) = canonical_order(&sg);
            let cdump = format!("{}{}{}", dump_grammar(&grm), dump_table_perm(&grm, &st, true, &order, &inv), dump_graph_perm(&sg, &order, &inv));
            // every index handed out is below the reported length (wrap-around detector)
            let (nr, nt, np) = (usize::from(grm.rules_len()), usize::from(grm.tokens_len()), usize::from(grm.prods_len()));
            let mut in_range = usize::from(grm.start_prod()) < np && usize::from(grm.eof_token_idx()) < nt && usize::from(grm.start_rule_idx()) < nr;
            for p in grm.iter_pidxs() {
                in_range &= usize::from(p) < np && usize::from(grm.prod_to_rule(p)) < nr && usize::from(grm.prod_len(p)) == grm.prod(p).len();
            }
            in_range &= grm.iter_rules().count() == nr && grm.iter_tidxs().count() == nt && grm.iter_pidxs().count() == np;
            let parses = parse_all::<$T>(&grm, &st, n, $inputs);
            Ok::<_, String>(json!({"status": "ok", "rules": nr, "tokens": nt, "prods": np, "states": n, "in_range": in_range, "dump": format!("{:016x}", fnv(&dump)), "cdump": format!("{:016x}", fnv(&cdump)), "dump_len": dump.len(), "parses": format!("{:016x}", fnv(&parses))}))
        }));
        match r {
            Ok(Ok(v)) => v,
            Ok(Err(e)) => json!({"status": "error", "msg": e}),
            Err(p) => json!({"status": "panic", "msg": panic_msg(&p)}),
        }
    }};
}

fn parse_all<T: vcore::real::Storage>(grm: &YaccGrammar<T>, st: &StateTable<T>, nstates: usize, inputs: &[Vec<usize>]) -> String
where
    usize: num_traits::AsPrimitive<T>,
{
    use num_traits::AsPrimitive;
    let drv = vcore::real::Drv::from_parts(grm, st, nstates, 6);
    let user_toks: Vec<TIdx<T>> = (0..usize::from(grm.tokens_len())).map(|t| TIdx(t.as_())).filter(|t| *t != grm.eof_token_idx()).collect();
    let mut out = String::new();
    for w in inputs {
        if w.iter().any(|t| *t >= user_toks.len()) {
            continue;
        }
        if !drv.terminates(&w.iter().map(|t| user_toks[*t]).collect::<Vec<_>>()) {
            continue;
        }
        let mut text = String::new();
        let mut lexemes = vec![];
        for t in w.iter() {
            let start = text.len();
            text.push('x');
            lexemes.push(Ok(DefaultLexeme::<T>::new(user_toks[*t].as_storaget(), start, 1)));
        }
        let lexer: LRNonStreamingLexer<DefaultLexerTypes<T>> = LRNonStreamingLexer::new(&text, lexemes, cfgrammar::NewlineCache::new());
        let pb = RTParserBuilder::new(grm, st).recoverer(RecoveryKind::None);
        let (tree, errs) = pb.parse_map(&lexer, &|l| format!("{}", usize::from(TIdx(l.tok_id()))), &|r, ks: Vec<String>| format!("R{}({})", usize::from(r), ks.join(" ")));
        out.push_str(&format!("{:?} -> {:?} {:?}\n", w, tree, errs.iter().map(|e| format!("{}", e)).collect::<Vec<_>>()));
    }
    out
}

/// `skip_tail`: the last 12 of the c rules are rules without a name (white space / comment rules
/// usually come last), so that the rules beyond the width boundary are all of that kind.
fn lex_width(width: &str, c: usize, skip_tail: bool) -> Value {
    let mut s = String::from("%%\n");
    for r in 0..c {
        if skip_tail && r + 12 >= c {
            s.push_str(&format!("a{} ;\n", r));
        } else {
            s.push_str(&format!("a{} 'T{}'\n", r, r));
        }
    }
    macro_rules! go {
        ($T:ty) => {{
            match catch_unwind(AssertUnwindSafe(|| {
                let ld = LRNonStreamingLexerDef::<DefaultLexerTypes<$T>>::from_str(&s).map_err(|e| format!("{:?}", e.iter().map(|x| x.to_string()).collect::<Vec<_>>()))?;
                let n = ld.iter_rules().count();
                let mut ids: Vec<usize> = ld.iter_rules().filter_map(|r| r.tok_id()).map(|x| x as usize).collect();
                let total = ids.len();
                ids.sort();
                ids.dedup();
                Ok::<_, String>(json!({"status": "ok", "rules": n, "distinct_ids": ids.len(), "ids": total}))
            })) {
                Ok(Ok(v)) => v,
                Ok(Err(e)) => json!({"status": "error", "msg": e}),
                Err(p) => json!({"status": "panic", "msg": panic_msg(&p)}),
            }
        }};
    }
    match width {
        "u8" => go!(u8),
        "u16" => go!(u16),
        _ => go!(u32),
    }
}

pub fn worker(_args: &[String]) {
    worker_main(|line| {
        let c: Value = serde_json::from_str(line).unwrap_or(json!({}));
        let fam = c["family"].as_str().unwrap_or("");
        let n = c["c"].as_u64().unwrap_or(0) as usize;
        let width = c["width"].as_str().unwrap_or("u32");
        if fam == "lexrules" || fam == "lexskip" {
            return lex_width(width, n, fam == "lexskip").to_string();
        }
        let (text, _, _, _) = family(fam, n);
        let inputs = all_inputs(2, 3);
        let v = match width {
            "u8" => build_width!(u8, &text, &inputs, family_kind(fam)),
            "u16" => build_width!(u16, &text, &inputs, family_kind(fam)),
            _ => build_width!(u32, &text, &inputs, family_kind(fam)),
        };
        v.to_string()
    });
}

pub fn run(ctx: Ctx) -> i32 {
    let fams = ["rules", "tokens", "prods", "symbols", "ecosymbols", "ecoprods", "states", "lexrules", "lexskip"];
    let widths = ["u8", "u16", "u32"];
    if let Some(case) = load_replay(&ctx) {
        // the quick exploration takes about a second: replay = run it again and keep the
        // violations of the stored case
        let keys: Vec<&str> = case.as_object().map(|m| m.keys().map(|k| k.as_str()).collect()).unwrap_or_default();
        ctx.replay_only(&keys, &case);
    }
    // ---- (1) the universe in all widths, in-process
    let gs = if ctx.quick() { Universe::new(2, 2, 2, 2, 5).enumerate() } else { Universe::new(2, 2, 2, 2, 6).enumerate() };
    let inputs = all_inputs(2, 4);
    let uni: u64 = gs
        .par_iter()
        .map(|g| {
            let text = g.to_yacc();
            let a = build_width!(u8, &text, &inputs);
            let b = build_width!(u16, &text, &inputs);
            let c = build_width!(u32, &text, &inputs);
            if a != c || b != c {
                let strip = |v: &Value| {
                    let mut v = v.clone();
                    if let Some(m) = v.as_object_mut() {
                        m.remove("dump");
                        m.remove("dump_len");
                    }
                    v
                };
                let summary = format!("building in different widths gives different results: u8 {} / u16 {} / u32 {} for {}", a, b, c, g.short());
                if strip(&a) == strip(&c) && strip(&b) == strip(&c) {
                    // identical up to a renumbering of the states
                    ctx.defect("state_numbering_depends_on_width", &summary, json!({"grammar": g.to_json()}));
                } else {
                    ctx.violation("c20-universe", &summary, json!({"grammar": g.to_json()}));
                }
            }
            if c["status"] == "ok" { 1 } else { 0 }
        })
        .sum();
    ctx.set("universe_grammars_built_in_three_widths", uni);
    // ---- (2) boundary families in watched children
    let mut counts: Vec<usize> = (250..=260).collect();
    if !ctx.quick() {
        counts.extend(65533..=65537);
    }
    let mut cases = vec![];
    let mut meta = vec![];
    for f in fams {
        for c in &counts {
            // the 65k-state table is enormous: thorough tier only builds it for u32/u16 around the boundary once
            // a grammar with 65k LR states is out of reach for the complete dump: state-count
            // boundaries are only explored around 255
            if f == "states" && *c > 1000 {
                continue;
            }
            for w in widths {
                cases.push(json!({"family": f, "c": c, "width": w}).to_string());
                meta.push((f, *c, w));
            }
        }
    }
    let res = run_pool("c20", &[], &cases, 8, Duration::from_secs(if ctx.quick() { 60 } else { 600 }), 8192);
    let mut refusals = 0u64;
    let mut oks = 0u64;
    let get = |f: &str, c: usize, w: &str| -> Option<Value> {
        meta.iter().position(|m| m.0 == f && m.1 == c && m.2 == w).and_then(|i| match &res[i] {
            WOut::Ok(l) => serde_json::from_str(l).ok(),
            _ => None,
        })
    };
    for (i, r) in res.iter().enumerate() {
        let (f, c, w) = meta[i];
        let case = json!({"family": f, "c": c, "width": w});
        let v: Value = match r {
            WOut::Ok(l) => serde_json::from_str(l).unwrap_or(json!({"status": "garbled"})),
            WOut::Timeout => {
                ctx.violation("c20-hang", &format!("family {} with c = {} in {}: construction does not return", f, c, w), case);
                continue;
            }
            WOut::Crash(s) => {
                ctx.violation("c20-crash", &format!("family {} with c = {} in {}: construction kills the process ({})", f, c, w, s), case);
                continue;
            }
        };
        match v["status"].as_str().unwrap_or("") {
            "panic" => {
                let msg = v["msg"].as_str().unwrap_or("");
                if is_documented_refusal(msg) {
                    refusals += 1;
                    // monotonicity: a wider type must not refuse what a narrower one accepts - checked below
                } else {
                    ctx.violation("c20-panic", &format!("family {} with c = {} in {}: construction panics with \"{}\" instead of the documented refusal", f, c, w, msg), case);
                }
            }
            "error" => ctx.violation("c20-error", &format!("family {} with c = {} in {}: {}", f, c, w, v["msg"]), case),
            "ok" => {
                oks += 1;
                if f == "lexrules" || f == "lexskip" {
                    if v["rules"].as_u64() != Some(c as u64) || v["distinct_ids"].as_u64() != Some(c as u64) {
                        ctx.violation("c20-lex-wrap", &format!("lexer with {} rules in {}: {} rules with {} distinct ids", c, w, v["rules"], v["distinct_ids"]), case);
                    }
                    continue;
                }
                let (_, er, et, ep) = family(f, c);
                let sizes_ok = if er == usize::MAX { v["in_range"] == json!(true) } else { v["rules"].as_u64() == Some(er as u64 + 1) && v["tokens"].as_u64() == Some(et as u64 + 1) && v["prods"].as_u64() == Some(ep as u64 + 1) && v["in_range"] == json!(true) };
                if !sizes_ok {
                    ctx.violation(
                        "c20-wrap",
                        &if er == usize::MAX {
                            format!("family {} with c = {} accepted in {} but hands out inconsistent sizes / indices (rules_len {} tokens_len {} prods_len {}; every index below its length and prod_len(p) == prod(p).len() for every production: {})", f, c, w, v["rules"], v["tokens"], v["prods"], v["in_range"])
                        } else {
                            format!("family {} with c = {} accepted in {} but reports rules_len {} tokens_len {} prods_len {} (indices in range: {}); the source has {} + 1 rules, {} + 1 tokens, {} + 1 productions", f, c, w, v["rules"], v["tokens"], v["prods"], v["in_range"], er, et, ep)
                        },
                        case.clone(),
                    );
                }
                if f == "states" && v["states"].as_u64() != Some(c as u64) {
                    ctx.violation("c20-states", &format!("family states with c = {} in {}: {} states", c, w, v["states"]), case.clone());
                }
                if let Some(big) = get(f, c, "u32") {
                    if big["status"] == "ok" && (big["cdump"] != v["cdump"] || big["parses"] != v["parses"]) {
                        ctx.violation("c20-differs", &format!("family {} with c = {}: the {} build answers queries / parses differently from the u32 build", f, c, w), case);
                    } else if big["status"] == "ok" && big["dump"] != v["dump"] {
                        ctx.defect("state_numbering_depends_on_width", &format!("family {} with c = {}: the {} build numbers its states differently from the u32 build", f, c, w), case);
                    }
                }
            }
            _ => machinery("garbled c20 worker output"),
        }
    }
    // monotonicity
    for f in fams {
        for c in &counts {
            let st = |w: &str| get(f, *c, w).map(|v| v["status"] == "ok");
            if let (Some(a), Some(b), Some(d)) = (st("u8"), st("u16"), st("u32")) {
                if (a && !b) || (b && !d) {
                    ctx.violation("c20-monotone", &format!("family {} with c = {}: accepted in a narrower width (u8 {}, u16 {}) but not in a wider one (u32 {})", f, c, a, b, d), json!({"family": f, "c": c}));
                }
            }
        }
    }
    if refusals == 0 || oks == 0 {
        machinery("vacuous exploration (C20)");
    }
    ctx.sample(json!({"family": "rules", "c": 255, "widths": widths}));
    ctx.sample(json!({"family": "states", "c": 254, "widths": widths}));
    let cov = json!({
        "states": cases.len() as u64 + uni * 3,
        "transitions": cases.len() as u64 + uni * 3,
        "traces_validated_against_impl": cases.len() as u64 + uni * 3,
        "evaluations": cases.len() as u64 + uni * 3,
        "distinct_nontrivial": refusals,
        "rule": "(family, count c, width) built in a watched child; non-trivial = builds refused with a documented panic",
        "families": fams,
        "counts": format!("{:?}", counts),
        "builds_accepted": oks,
        "builds_refused_cleanly": refusals,
    });
    ctx.finish(cov, &["documented refusals: 'StorageT is not big enough ...', lrlex's 'StorageT::try_from failed ...', and the two state-count assertions in stategraph.rs / statetable.rs", "u32 boundaries are out of reach"], true)
}

//! C03 — conflicts are resolved by Yacc's rules and reported exactly.
//! C16 — state graph and table queries agree with each other.
//!
//! Both sweep the same space: every grammar of the universes + the operator-skeleton family x
//! every precedence configuration (<= 2 declaration lines, <= 1 %prec placement), and for every
//! resulting table every state x every token (cells) / rule (gotos).

use crate::common::*;
use cfgrammar::{PIdx, SIdx, Symbol, TIdx};
use lrtable::{Action, StIdx};
use rayon::prelude::*;
use serde_json::json;
use std::collections::{BTreeMap, BTreeSet};
use vcore::gram::{Assoc, RefGrammar, Sym, family_expr, family_ternary, family_wide};
use vcore::real::{BuildErr, Built, build};
use vcore::refs::{Analysis, Lr1, LrAct, analyse};
use vcore::report::Ctx;

#[derive(Clone, Copy, PartialEq, Eq)]
pub enum Mode {
    C03,
    C16,
}

type Item = (usize, usize, usize); // flat production (nprods = the added start production), dot, token (ntoks = EOF)

struct Flat {
    prods: Vec<(usize, Vec<Sym>)>, // (rule, rhs); last = (usize::MAX, [R0])
    by_rule: Vec<Vec<usize>>,
}

fn flatten(g: &RefGrammar) -> Flat {
    let mut prods = vec![];
    let mut by_rule = vec![vec![]; g.nrules()];
    for (r, ps) in g.rules.iter().enumerate() {
        for p in ps {
            by_rule[r].push(prods.len());
            prods.push((r, p.clone()));
        }
    }
    prods.push((usize::MAX, vec![Sym::R(0)]));
    Flat { prods, by_rule }
}

fn ref_closure(g: &RefGrammar, an: &Analysis, fl: &Flat, kernel: &BTreeSet<Item>) -> BTreeSet<Item> {
    let mut set = kernel.clone();
    let mut todo: Vec<Item> = kernel.iter().cloned().collect();
    while let Some((p, dot, la)) = todo.pop() {
        let rhs = &fl.prods[p].1;
        if dot >= rhs.len() {
            continue;
        }
        if let Sym::R(x) = rhs[dot] {
            let mut las: BTreeSet<usize> = BTreeSet::new();
            let mut all_nullable = true;
            for s in &rhs[dot + 1..] {
                match s {
                    Sym::T(t) => {
                        las.insert(*t);
                        all_nullable = false;
                        break;
                    }
                    Sym::R(y) => {
                        for t in 0..g.ntoks {
                            if an.first[*y] & (1 << t) != 0 {
                                las.insert(t);
                            }
                        }
                        if !an.nullable[*y] {
                            all_nullable = false;
                            break;
                        }
                    }
                }
            }
            if all_nullable {
                las.insert(la);
            }
            for b in las {
                for &q in &fl.by_rule[x] {
                    if set.insert((q, 0, b)) {
                        todo.push((q, 0, b));
                    }
                }
            }
        }
    }
    set
}

fn items_of(b: &Built<u32>, is: &lrtable_itemset::Items) -> BTreeSet<Item> {
    let mut out = BTreeSet::new();
    for (&(pidx, dot), ctx) in is.iter() {
        for t in ctx.iter_set_bits(..) {
            out.insert((usize::from(pidx), usize::from(dot), b.ref_tok(TIdx(t as u32))));
        }
    }
    out
}

mod lrtable_itemset {
    use cfgrammar::{PIdx, SIdx};
    pub type Items = std::collections::HashMap<
        (PIdx<u32>, SIdx<u32>),
        vob::Vob,
        std::hash::BuildHasherDefault<fnv::FnvHasher>,
    >;
}

#[derive(Default)]
struct Stats {
    specs: u64,
    rejected: u64,
    accept_reduce: u64,
    states: u64,
    cells: u64,
    kinds: BTreeMap<&'static str, u64>,
    with_conflicts: u64,
}

impl Stats {
    fn merge(mut self, o: Stats) -> Stats {
        self.specs += o.specs;
        self.rejected += o.rejected;
        self.accept_reduce += o.accept_reduce;
        self.states += o.states;
        self.cells += o.cells;
        self.with_conflicts += o.with_conflicts;
        for (k, v) in o.kinds {
            *self.kinds.entry(k).or_insert(0) += v;
        }
        self
    }
    fn kind(&mut self, k: &'static str) {
        *self.kinds.entry(k).or_insert(0) += 1;
    }
}

fn act_str(a: &Action<u32>) -> String {
    match a {
        Action::Shift(s) => format!("Shift({})", usize::from(*s)),
        Action::Reduce(p) => format!("Reduce({})", usize::from(*p)),
        Action::Accept => "Accept".into(),
        Action::Error => "Error".into(),
    }
}

/// Check one specification. Returns statistics; violations go to `ctx`.
fn check_spec(ctx: &Ctx, mode: Mode, g: &RefGrammar) -> Stats {
    ctx.guard(
        &format!("building / querying the table of {}", g.short()),
        || json!({"grammar": g.to_json(), "detail": null}),
        Stats::default(),
        || check_spec_inner(ctx, mode, g),
    )
}

fn check_spec_inner(ctx: &Ctx, mode: Mode, g: &RefGrammar) -> Stats {
    let mut st = Stats::default();
    st.specs = 1;
    let case = |extra: serde_json::Value| json!({"grammar": g.to_json(), "detail": extra});
    let b: Built<u32> = match build(g) {
        Ok(b) => b,
        Err(BuildErr::Table(_)) => {
            // accept/reduce conflict: must be exactly when the canonical automaton has one in the
            // state reached from the start state on the start rule
            st.accept_reduce = 1;
            if mode == Mode::C03 {
                let lr = Lr1::build(g);
                let s1 = lr.gotos[0].get(&0).cloned();
                let has = s1
                    .map(|s| {
                        lr.actions[s]
                            .get(&g.ntoks)
                            .map(|v| v.contains(&LrAct::Accept) && v.len() > 1)
                            .unwrap_or(false)
                    })
                    .unwrap_or(false);
                if !has {
                    ctx.violation(
                        "accept-reduce-spurious",
                        &format!("table construction failed with an accept/reduce conflict that the item sets do not contain: {}", g.short()),
                        case(json!(null)),
                    );
                }
            }
            return st;
        }
        Err(e) => {
            st.rejected = 1;
            ctx.violation("rejected", &format!("specification rejected: {:?}: {}", e, g.short()), case(json!(null)));
            return st;
        }
    };
    // a table was built: there must be no accept/reduce candidate anywhere (checked per cell below)
    let fl = flatten(g);
    let an = analyse(g);
    let nprods = g.nprods();
    if usize::from(b.grm.prods_len()) != nprods + 1 || usize::from(b.grm.start_prod()) != nprods {
        ctx.violation("prod-numbering", &format!("production numbering differs from source order: {}", g.short()), case(json!(null)));
        return st;
    }
    for (i, (r, rhs)) in fl.prods.iter().enumerate().take(nprods) {
        if b.ref_prod(PIdx(i as u32)) != *rhs || b.rinv.get(&usize::from(b.grm.prod_to_rule(PIdx(i as u32)))) != Some(r) {
            ctx.violation("prod-numbering", &format!("production {} differs from source: {}", i, g.short()), case(json!(null)));
            return st;
        }
    }
    let flat = g.flat_prods();
    let ntok_all = g.ntoks + 1;
    let nstates = b.nstates();
    st.states = nstates as u64;

    let mut exp_sr: Vec<(usize, usize, usize)> = vec![]; // (tok, prod, state)
    let mut exp_rr_losers: BTreeMap<(usize, usize), BTreeSet<usize>> = BTreeMap::new(); // (state,tok) -> losers
    let mut exp_rr_cands: BTreeMap<(usize, usize), BTreeSet<usize>> = BTreeMap::new();

    for q in 0..nstates {
        let qi = StIdx(q as u32);
        let closed = items_of(&b, &b.sg.closed_state(qi).items);
        if mode == Mode::C16 {
            let core = items_of(&b, &b.sg.core_state(qi).items);
            let rc = ref_closure(g, &an, &fl, &core);
            if rc != closed {
                let missing: Vec<_> = rc.difference(&closed).take(3).collect();
                let extra: Vec<_> = closed.difference(&rc).take(3).collect();
                ctx.violation(
                    "closure",
                    &format!("closed state {} is not the LR(1) closure of its core (missing {:?}, extra {:?}): {}", q, missing, extra, g.short()),
                    case(json!({"state": q})),
                );
            }
        }
        let mut listed_actions: BTreeSet<usize> = BTreeSet::new();
        for t in b.st.state_actions(qi) {
            listed_actions.insert(b.ref_tok(t));
        }
        let mut listed_shifts: BTreeSet<usize> = BTreeSet::new();
        for t in b.st.state_shifts(qi) {
            listed_shifts.insert(b.ref_tok(t));
        }
        let mut reduces_here: BTreeSet<(usize, usize)> = BTreeSet::new(); // (rule, len) of Reduce actions
        let mut reduce_prods_here: BTreeSet<usize> = BTreeSet::new();
        let mut nonerror = 0;
        let mut all_reduce = true;
        for t in 0..ntok_all {
            st.cells += 1;
            let tidx = b.real_tok(t);
            let real = b.st.action(qi, tidx);
            // candidates from the item sets
            let reds: BTreeSet<usize> = closed
                .iter()
                .filter(|(p, dot, la)| *la == t && *dot == fl.prods[*p].1.len() && *p != nprods)
                .map(|(p, _, _)| *p)
                .collect();
            let accept = closed.contains(&(nprods, 1, t)) && t == g.ntoks;
            let shift_tgt = if t < g.ntoks { b.sg.edge(qi, Symbol::Token(tidx)) } else { None };
            // does any item with a non-empty lookahead have this token after its dot? then the
            // edge must exist (an edge created only by a lookahead-less item is tolerated)
            let shift_needed = t < g.ntoks
                && closed.iter().any(|(p, dot, _)| fl.prods[*p].1.get(*dot) == Some(&Sym::T(t)));
            if shift_needed && shift_tgt.is_none() {
                ctx.violation("edge-missing", &format!("state {} has an item with '{}' after the dot but no edge: {}", q, g.tok_name(t), g.short()), case(json!({"state": q, "tok": t})));
            }
            let expected: Action<u32>;
            if accept {
                if !reds.is_empty() {
                    ctx.violation("accept-reduce-missed", &format!("state {} has accept and reduce on $ but construction succeeded: {}", q, g.short()), case(json!({"state": q})));
                }
                expected = Action::Accept;
                st.kind("accept");
            } else {
                let rstar = reds.iter().next().cloned();
                if reds.len() > 1 {
                    st.kind("reduce/reduce");
                    exp_rr_cands.insert((q, t), reds.clone());
                    exp_rr_losers.insert((q, t), reds.iter().skip(1).cloned().collect());
                }
                expected = match (shift_tgt, rstar) {
                    (None, None) => Action::Error,
                    (Some(s), None) => Action::Shift(s),
                    (None, Some(r)) => Action::Reduce(PIdx(r as u32)),
                    (Some(s), Some(r)) => {
                        let (pr, pi) = flat[r];
                        match (g.tok_prec(t), g.prod_prec_of(pr, pi)) {
                            (Some((tl, ta)), Some((pl, _pa))) => {
                                if tl > pl {
                                    st.kind("prec: token level higher -> shift");
                                    Action::Shift(s)
                                } else if tl < pl {
                                    st.kind("prec: production level higher -> reduce");
                                    Action::Reduce(PIdx(r as u32))
                                } else {
                                    match ta {
                                        Assoc::Left => {
                                            st.kind("prec: %left -> reduce");
                                            Action::Reduce(PIdx(r as u32))
                                        }
                                        Assoc::Right => {
                                            st.kind("prec: %right -> shift");
                                            Action::Shift(s)
                                        }
                                        Assoc::Nonassoc => {
                                            st.kind("prec: %nonassoc -> error");
                                            Action::Error
                                        }
                                    }
                                }
                            }
                            _ => {
                                st.kind("default shift/reduce -> shift");
                                exp_sr.push((t, r, q));
                                Action::Shift(s)
                            }
                        }
                    }
                };
            }
            if mode == Mode::C03 && real != expected {
                ctx.violation(
                    "cell",
                    &format!(
                        "action(state {}, '{}') = {} but Yacc's rules give {} for {}",
                        q,
                        if t == g.ntoks { "$".to_string() } else { g.tok_name(t) },
                        act_str(&real),
                        act_str(&expected),
                        g.short()
                    ),
                    case(json!({"state": q, "tok": t})),
                );
            }
            // ---- C16: agreement between the views
            if mode == Mode::C16 {
                let is_err = matches!(real, Action::Error);
                if listed_actions.contains(&t) == is_err {
                    let summary = format!(
                        "state_actions({}) {} '{}' but action is {} for {}",
                        q,
                        if is_err { "lists" } else { "omits" },
                        if t == g.ntoks { "$".to_string() } else { g.tok_name(t) },
                        act_str(&real),
                        g.short()
                    );
                    ctx.violation("state_actions", &summary, case(json!({"state": q, "tok": t})));
                }
                let is_shift = matches!(real, Action::Shift(_));
                if listed_shifts.contains(&t) != is_shift {
                    ctx.violation(
                        "state_shifts",
                        &format!("state_shifts({}) disagrees with action on '{}' ({}) for {}", q, t, act_str(&real), g.short()),
                        case(json!({"state": q, "tok": t})),
                    );
                }
                match real {
                    Action::Shift(s) => {
                        if shift_tgt != Some(s) {
                            ctx.violation("shift-edge", &format!("Shift target of ({}, {}) differs from the graph edge for {}", q, t, g.short()), case(json!({"state": q, "tok": t})));
                        }
                        all_reduce = false;
                        nonerror += 1;
                    }
                    Action::Reduce(p) => {
                        let pi = usize::from(p);
                        if pi >= nprods {
                            ctx.violation("reduce-range", &format!("Reduce of out-of-range production for {}", g.short()), case(json!({"state": q, "tok": t})));
                        } else {
                            reduces_here.insert((fl.prods[pi].0, fl.prods[pi].1.len()));
                            reduce_prods_here.insert(pi);
                        }
                        nonerror += 1;
                    }
                    Action::Accept => {
                        all_reduce = false;
                        nonerror += 1;
                    }
                    Action::Error => {}
                }
            }
        }
        if mode == Mode::C16 {
            // core_reduces: exactly one production per distinct (rule, length) among the Reduce actions
            let mut cr: Vec<usize> = b.st.core_reduces(qi).map(|p| usize::from(p)).collect();
            cr.sort();
            let cr_keys: Vec<(usize, usize)> = cr.iter().filter(|p| **p < nprods).map(|p| (fl.prods[*p].0, fl.prods[*p].1.len())).collect();
            let cr_set: BTreeSet<(usize, usize)> = cr_keys.iter().cloned().collect();
            let ok = cr.iter().all(|p| reduce_prods_here.contains(p)) && cr_set == reduces_here && cr_keys.len() == cr_set.len();
            if !ok {
                ctx.violation(
                    "core_reduces",
                    &format!("core_reduces({}) = {:?} but the state's reductions are {:?} (rule,len) for {}", q, cr, reduces_here, g.short()),
                    case(json!({"state": q})),
                );
            }
            let ro = b.st.reduce_only_state(qi);
            let exp_ro = nonerror > 0 && all_reduce && reduces_here.len() == 1;
            if nonerror > 0 && ro != exp_ro {
                ctx.violation(
                    "reduce_only",
                    &format!("reduce_only_state({}) = {} but expected {} for {}", q, ro, exp_ro, g.short()),
                    case(json!({"state": q})),
                );
            }
            // gotos <-> rule edges, both ways
            for r in 0..g.nrules() {
                let ridx = b.rmap[r];
                let gt = b.st.goto(qi, ridx);
                let ed = b.sg.edge(qi, Symbol::Rule(ridx));
                let needed = closed.iter().any(|(p, dot, _)| fl.prods[*p].1.get(*dot) == Some(&Sym::R(r)));
                if gt != ed {
                    ctx.violation("goto-edge", &format!("goto({}, {}) = {:?} but edge = {:?} for {}", q, g.rule_name(r), gt, ed, g.short()), case(json!({"state": q, "rule": r})));
                }
                if needed && ed.is_none() {
                    ctx.violation("edge-missing", &format!("state {} has an item with {} after the dot but no edge: {}", q, g.rule_name(r), g.short()), case(json!({"state": q, "rule": r})));
                }
            }
            // the added start rule never has a goto
            if b.st.goto(qi, b.grm.start_rule_idx()).is_some() {
                ctx.violation("goto-start", &format!("goto on the added start rule in state {} for {}", q, g.short()), case(json!({"state": q})));
            }
            // every edge's target kernel = advanced items (cores) and the edge symbol is consistent
            for (sym, tgt) in b.sg.edges(qi) {
                if usize::from(*tgt) >= nstates {
                    ctx.violation("edge-range", &format!("edge to a non-existent state for {}", g.short()), case(json!({"state": q})));
                    continue;
                }
                let rsym = match sym {
                    Symbol::Rule(r) => Sym::R(*b.rinv.get(&usize::from(*r)).unwrap_or(&usize::MAX)),
                    Symbol::Token(t) => Sym::T(b.ref_tok(*t)),
                };
                let advanced: BTreeSet<(usize, usize)> = b
                    .sg
                    .closed_state(qi)
                    .items
                    .keys()
                    .filter(|(p, d)| fl.prods[usize::from(*p)].1.get(usize::from(*d)) == Some(&rsym))
                    .map(|(p, d)| (usize::from(*p), usize::from(*d) + 1))
                    .collect();
                let kernel: BTreeSet<(usize, usize)> = b.sg.core_state(*tgt).items.keys().map(|(p, d)| (usize::from(*p), usize::from(*d))).collect();
                if advanced != kernel {
                    ctx.violation("edge-kernel", &format!("edge ({} --{:?}--> {}) target kernel {:?} is not the advanced item set {:?} for {}", q, rsym, usize::from(*tgt), kernel, advanced, g.short()), case(json!({"state": q})));
                }
            }
        }
    }
    if mode == Mode::C16 {
        // reachability of every state from the start state
        let mut seen = vec![false; nstates];
        let s0 = usize::from(b.sg.start_state());
        if b.sg.start_state() != b.st.start_state() {
            ctx.violation("start-state", &format!("graph and table disagree on the start state for {}", g.short()), case(json!(null)));
        }
        let mut todo = vec![s0];
        seen[s0] = true;
        while let Some(q) = todo.pop() {
            for (_, t) in b.sg.edges(StIdx(q as u32)) {
                let t = usize::from(*t);
                if t < nstates && !seen[t] {
                    seen[t] = true;
                    todo.push(t);
                }
            }
        }
        if let Some(q) = seen.iter().position(|x| !*x) {
            ctx.violation("unreachable-state", &format!("state {} is not reachable from the start state for {}", q, g.short()), case(json!({"state": q})));
        }
        // start kernel = [^ -> . S, $]
        let k0 = items_of(&b, &b.sg.core_state(b.sg.start_state()).items);
        let exp: BTreeSet<Item> = [(nprods, 0, g.ntoks)].into_iter().collect();
        if k0 != exp {
            ctx.violation("start-kernel", &format!("start kernel is {:?} for {}", k0, g.short()), case(json!(null)));
        }
    }
    if mode == Mode::C03 {
        // conflict lists
        let (mut sr, mut rr): (Vec<(usize, usize, usize)>, Vec<(usize, usize, usize, usize)>) = (vec![], vec![]);
        if let Some(c) = b.st.conflicts() {
            for (t, p, s) in c.sr_conflicts() {
                sr.push((b.ref_tok(*t), usize::from(*p), usize::from(*s)));
            }
            for (t, p1, p2, s) in c.rr_conflicts() {
                rr.push((b.ref_tok(*t), usize::from(*p1), usize::from(*p2), usize::from(*s)));
            }
            if c.sr_len() != sr.len() || c.rr_len() != rr.len() {
                ctx.violation("conflict-len", &format!("sr_len/rr_len disagree with the iterators for {}", g.short()), case(json!(null)));
            }
            if sr.is_empty() && rr.is_empty() {
                ctx.violation("conflict-empty", &format!("conflicts() is Some but empty for {}", g.short()), case(json!(null)));
            }
        }
        let mut a = sr.clone();
        a.sort();
        let mut e = exp_sr.clone();
        e.sort();
        if a != e {
            ctx.violation(
                "sr-list",
                &format!("shift/reduce conflicts reported {:?} but the cells settled by the default rule are {:?} (tok, prod, state) for {}", a, e, g.short()),
                case(json!(null)),
            );
        }
        // reduce/reduce: per cell exactly k-1 entries whose second components are the losers,
        // each paired with an earlier candidate
        let mut got: BTreeMap<(usize, usize), Vec<(usize, usize)>> = BTreeMap::new();
        for (t, p1, p2, s) in &rr {
            got.entry((*s, *t)).or_default().push((*p1, *p2));
        }
        let mut ok = got.keys().collect::<BTreeSet<_>>() == exp_rr_losers.keys().collect::<BTreeSet<_>>();
        if ok {
            for (cell, pairs) in &got {
                let mut losers: Vec<usize> = pairs.iter().map(|(_, l)| *l).collect();
                losers.sort();
                let exp_l: Vec<usize> = exp_rr_losers[cell].iter().cloned().collect();
                let cands = &exp_rr_cands[cell];
                if losers != exp_l || pairs.iter().any(|(w, l)| !(w < l) || !cands.contains(w)) {
                    ok = false;
                }
            }
        }
        if !ok {
            ctx.violation(
                "rr-list",
                &format!("reduce/reduce conflicts reported {:?} but the losing candidates per (state,tok) are {:?} for {}", rr, exp_rr_losers, g.short()),
                case(json!(null)),
            );
        }
        if !(sr.is_empty() && rr.is_empty()) {
            st.with_conflicts = 1;
        }
    }
    st
}

pub fn spec_space(ctx: &Ctx) -> (Vec<RefGrammar>, Vec<(String, usize)>, usize) {
    let lists = if ctx.quick() {
        universe_list(&[(2, 2, 2, 2, 5), (2, 2, 2, 3, 4), (2, 3, 2, 2, 5), (3, 2, 2, 2, 4), (2, 1, 2, 3, 7)])
    } else {
        universe_list(&[(2, 2, 2, 2, 6), (2, 3, 2, 2, 5), (3, 2, 2, 2, 5), (2, 2, 3, 2, 5), (2, 2, 2, 3, 6), (2, 1, 2, 4, 8)])
    };
    let (mut bases, mut sizes) = union(lists);
    let fe = family_expr();
    sizes.push(("F-expr".to_string(), fe.len()));
    bases.extend(fe);
    let ft = family_ternary();
    sizes.push(("F-ternary".to_string(), ft.len()));
    bases.extend(ft);
    let nbases = bases.len();
    (bases, sizes, nbases)
}

/// Does the grammar have any cell where both a shift and a reduce are candidates (the only place
/// where precedence declarations can matter)? Decided on the canonical LR(1) automaton, whose
/// candidates are a subset of the merged automaton's... so use the real automaton instead: cheap.
fn has_sr_candidates(g: &RefGrammar) -> bool {
    match build::<u32>(g) {
        Ok(b) => {
            for q in 0..b.nstates() {
                let qi = StIdx(q as u32);
                let items = &b.sg.closed_state(qi).items;
                let mut red = vec![false; g.ntoks + 1];
                for (&(pidx, dot), ctx) in items.iter() {
                    if dot == b.grm.prod_len(pidx) {
                        for t in ctx.iter_set_bits(..) {
                            let rt = b.ref_tok(TIdx(t as u32));
                            if rt <= g.ntoks {
                                red[rt] = true;
                            }
                        }
                    }
                }
                for t in 0..g.ntoks {
                    if red[t] && b.sg.edge(qi, Symbol::Token(b.tmap[t])).is_some() {
                        return true;
                    }
                }
            }
            false
        }
        Err(_) => false,
    }
}

pub fn run(ctx: Ctx, mode: Mode) -> i32 {
    if let Some(case) = load_replay(&ctx) {
        if case.get("grammar").is_none() {
            // a case of the %expect clause: the (few dozen) compile-time builds are run again and
            // only the stored case is kept
            ctx.replay_only(&["detail"], &case);
            check_expect(&ctx);
            return ctx.finish(json!({"states":1,"transitions":1,"traces_validated_against_impl":1,"samples":[case]}), &[], false);
        }
        let g = replay_grammar(&case);
        check_spec(&ctx, mode, &g);
        return ctx.finish(json!({"states":1,"transitions":1,"traces_validated_against_impl":1,"samples":[case]}), &[], false);
    }
    // ---- %expect / %expect-rr: one real compile-time build (own process) per case
    let expect_cases = if mode == Mode::C03 { check_expect(&ctx) } else { 0 };
    let (bases, sizes, nbases) = spec_space(&ctx);
    let max_lines = 2;
    let stats = bases
        .par_iter()
        .map(|g| {
            let mut st = Stats::default();
            let variants = if has_sr_candidates(g) {
                // quick: %prec placements only for grammars with <= 3 productions
                g.prec_variants(max_lines, !ctx.quick() || g.nprods() <= 3 || g.ntoks >= 3)
            } else {
                vec![g.clone()]
            };
            for v in &variants {
                st = st.merge(check_spec(&ctx, mode, v));
                // the same specification with `%epp` declarations (a display string is no part of
                // the specification: every cell, list and count must come out the same): on every
                // token, and on the first token of the first precedence line only
                if let Some((_, ts)) = v.precs.first() {
                    for epp in [(0..v.ntoks).collect::<Vec<usize>>(), vec![ts[0]]] {
                        let mut w = v.clone();
                        w.epp = epp;
                        st = st.merge(check_spec(&ctx, mode, &w));
                    }
                }
            }
            st
        })
        .reduce(Stats::default, |a, b| a.merge(b));
    // F-wide: the same skeletons (with their precedence declarations) moved to token indices
    // 62-120 and rule indices up to 65, as they are (no further precedence variants)
    let mut wide = family_wide();
    let nwide = wide.len();
    // F-pager: tables whose construction re-processes into new states or garbage-collects
    wide.extend(vcore::gram::family_pager().into_iter().map(|m| m.g));
    let stats = stats.merge(wide.par_iter().map(|g| check_spec(&ctx, mode, g)).reduce(Stats::default, |a, b| a.merge(b)));
    let mut sizes = sizes;
    sizes.push(("F-wide (tokens from index 62-120, rules from index 1-65)".to_string(), nwide));
    sizes.push(("F-pager (stored family, see genfam.rs)".to_string(), wide.len() - nwide));
    let _ = (PIdx(0u32), SIdx(0u32));
    // vacuity guard: every resolution kind must have been exercised
    for k in [
        "reduce/reduce",
        "default shift/reduce -> shift",
        "prec: token level higher -> shift",
        "prec: production level higher -> reduce",
        "prec: %left -> reduce",
        "prec: %right -> shift",
        "prec: %nonassoc -> error",
    ] {
        if stats.kinds.get(k).cloned().unwrap_or(0) == 0 {
            machinery(&format!("vacuous exploration: no cell of kind '{}'", k));
        }
    }
    for g in bases.iter().filter(|g| g.nsyms() >= 5).take(2) {
        ctx.sample(json!({"grammar": g.short(), "note": "x every precedence configuration; every (state, token) cell re-derived from the item sets"}));
    }
    let cov = json!({
        "states": stats.states,
        "transitions": stats.cells,
        "traces_validated_against_impl": stats.cells,
        "evaluations": stats.specs,
        "distinct_nontrivial": stats.with_conflicts + stats.kinds.get("prec: %nonassoc -> error").cloned().unwrap_or(0),
        "rule": "specification = grammar of the listed universes / F-expr x precedence configuration (<=2 lines, <=1 %prec); non-trivial = at least one conflict settled by a default rule, or a %nonassoc-erased cell",
        "universes": sizes.iter().map(|(n, s)| json!({"name": n, "size": s})).collect::<Vec<_>>(),
        "base_grammars": nbases,
        "specifications": stats.specs,
        "accept_reduce_failures": stats.accept_reduce,
        "cells_by_resolution_kind": stats.kinds,
        "compile_time_builds_for_expect": expect_cases,
    });
    ctx.finish(cov, &["precedence model = the generator's (level = index of the declaration line; production precedence = %prec token's, else last token's)", "item sets and edges of the StateGraph are taken as the automaton (their correctness is C01/C02/C16)"], true)
}


/// `CTParserBuilder::build()` must fail iff the numbers of shift/reduce and reduce/reduce
/// conflicts differ from `%expect` / `%expect-rr` (default 0). Conflict counts come from the
/// run-time table (whose lists are checked cell by cell above).
fn check_expect(ctx: &Ctx) -> u64 {
    let bodies = [
        ("S: 'a' S | 'b';", "conflict-free"),
        ("S: 'i' S | 'i' S 'e' S | 'x';", "dangling else"),
        ("S: A | B; A: 'a'; B: 'a';", "reduce/reduce"),
        ("S: S S | 'a' | A; A: 'a';", "both kinds"),
        ("S: S '+' S | S '*' S | 'n';", "four shift/reduce"),
    ];
    let root = std::path::PathBuf::from(format!("/verif/target/c03-{}", std::process::id()));
    std::fs::remove_dir_all(&root).ok();
    let mut n = 0u64;
    let mut work = vec![];
    for (bi, (body, what)) in bodies.iter().enumerate() {
        let text0 = format!("%start S\n%%\n{}\n", body);
        let grm = cfgrammar::yacc::YaccGrammar::<u32>::new_with_storaget(vcore::real::YK, &text0).unwrap();
        let (_, st) = lrtable::from_yacc(&grm, lrtable::Minimiser::Pager).unwrap();
        let (sr, rr) = st.conflicts().map(|c| (c.sr_len(), c.rr_len())).unwrap_or((0, 0));
        let mut vals_sr: Vec<Option<usize>> = vec![None, Some(0), Some(sr), Some(sr + 1)];
        let mut vals_rr: Vec<Option<usize>> = vec![None, Some(0), Some(rr), Some(rr + 1)];
        vals_sr.dedup();
        vals_rr.dedup();
        for e in &vals_sr {
            for r in &vals_rr {
                for eoc in [true, false] {
                    work.push((bi, *body, *what, sr, rr, *e, *r, eoc));
                }
            }
        }
    }
    use rayon::prelude::*;
    let results: Vec<(usize, bool, bool, String)> = work
        .par_iter()
        .enumerate()
        .map(|(k, (_, body, what, sr, rr, e, r, eoc))| {
            let dir = root.join(format!("e{}", k));
            std::fs::create_dir_all(&dir).unwrap();
            let mut text = String::from("%grmtools{yacckind: Original(NoAction)}\n%start S\n");
            if let Some(e) = e {
                text.push_str(&format!("%expect {}\n", e));
            }
            if let Some(r) = r {
                text.push_str(&format!("%expect-rr {}\n", r));
            }
            text.push_str(&format!("%%\n{}\n", body));
            std::fs::write(dir.join("g.y"), &text).unwrap();
            let c = json!({"dir": ".", "mode": "parser", "error_on_conflicts": eoc});
            let out = std::process::Command::new(std::env::current_exe().unwrap()).arg("--vbuild").arg(c.to_string()).current_dir(&dir).env_remove("OUT_DIR").output().expect("vbuild");
            let v: serde_json::Value = serde_json::from_str(String::from_utf8_lossy(&out.stdout).lines().last().unwrap_or("")).unwrap_or(json!({}));
            let ok = v["parser"]["ok"].as_bool();
            std::fs::remove_dir_all(&dir).ok();
            let expected_ok = !*eoc || (*sr == e.unwrap_or(0) && *rr == r.unwrap_or(0));
            let desc = format!("{} ({} shift/reduce, {} reduce/reduce), %expect {:?}, %expect-rr {:?}, error_on_conflicts {}", what, sr, rr, e, r, eoc);
            (k, ok == Some(expected_ok), ok.is_some(), format!("{}: build {} but should {}\n{}", desc, if ok == Some(true) { "succeeds" } else { "fails" }, if expected_ok { "succeed" } else { "fail" }, text))
        })
        .collect();
    for (_, good, ran, desc) in results {
        n += 1;
        if !ran {
            machinery(&format!("vbuild did not answer: {}", desc));
        }
        if !good {
            ctx.violation("expect", &desc, json!({"detail": desc}));
        }
    }
    std::fs::remove_dir_all(&root).ok();
    n
}

//! vcheck <ID> --tier quick|thorough [--replay FILE]
//! vcheck --worker <name> [args...]
//!
//! Exit codes: 0 = property held on everything explored; 1 = violation (VIOLATION line printed);
//! 2 = machinery failure (never a verdict).

mod c01;
mod genfam;
mod c03;
mod c05;
mod c08;
mod c09;
mod c10;
mod c11;
mod c12;
mod c13;
mod c14;
mod c15;
mod c17;
mod c18;
mod vbuild;
mod c19;
mod c20;
mod common;

use vcore::report::Ctx;

fn usage() -> ! {
    eprintln!("usage: vcheck <C01..C20> --tier quick|thorough [--replay FILE] | --worker <name>");
    std::process::exit(2)
}

fn main() {
    let args: Vec<String> = std::env::args().collect();
    if args.len() < 2 {
        usage();
    }
    if args[1] == "--c15-seed" {
        c15::seed_child();
        return;
    }
    if args[1] == "--pager-counters" {
        // debugging aid: what does the state-graph construction do on this .y file?
        let text = std::fs::read_to_string(&args[2]).expect("cannot read file");
        lrtable::verif_hooks::reset();
        let grm = cfgrammar::yacc::YaccGrammar::<u32>::new(vcore::real::YK, &text).expect("grammar");
        let r = lrtable::from_yacc(&grm, lrtable::Minimiser::Pager);
        println!("(reprocessed, new while re-processing, gc removed) = {:?}; states = {:?}", lrtable::verif_hooks::pager_counters(), r.as_ref().ok().map(|(sg, _)| usize::from(sg.all_states_len())));
        return;
    }
    if args[1] == "--gen-pager-family" {
        if args.len() < 4 {
            usage();
        }
        genfam::main(&args[2], &args[3]);
        return;
    }
    if args[1] == "--vbuild" {
        vbuild::main(&args[2]);
        return;
    }
    if args[1] == "--worker" {
        if args.len() < 3 {
            usage();
        }
        let rest: Vec<String> = args[3..].to_vec();
        match args[2].as_str() {
            "c17" => c17::worker(&rest),
            "rec" => c05::worker(&rest),
            "c12" => c12::worker(&rest),
            "c20" => c20::worker(&rest),
            _ => usage(),
        }
        return;
    }
    let id = args[1].clone();
    let mut tier = std::env::var("VERIF_TIER").unwrap_or_else(|_| "quick".to_string());
    let mut replay = None;
    let mut i = 2;
    while i < args.len() {
        match args[i].as_str() {
            "--tier" => {
                tier = args.get(i + 1).cloned().unwrap_or_else(|| usage());
                i += 2;
            }
            "--replay" => {
                replay = Some(std::path::PathBuf::from(
                    args.get(i + 1).cloned().unwrap_or_else(|| usage()),
                ));
                i += 2;
            }
            _ => usage(),
        }
    }
    if tier != "quick" && tier != "thorough" {
        usage();
    }
    vcore::report::quiet_panics();
    let res = std::panic::catch_unwind(|| {
        let mut ctx = Ctx::new(&id, &tier, "model_checking");
        ctx.replay = replay.clone();
        match id.as_str() {
            "C01" => c01::run(ctx, c01::Mode::C01),
            "C02" => c01::run(ctx, c01::Mode::C02),
            "C04" => c01::run(ctx, c01::Mode::C04),
            "C05" => c05::run(ctx, c05::Mode::C05),
            "C06" => c05::run(ctx, c05::Mode::C06),
            "C07" => c05::run(ctx, c05::Mode::C07),
            "C08" => c08::run(ctx),
            "C03" => c03::run(ctx, c03::Mode::C03),
            "C16" => c03::run(ctx, c03::Mode::C16),
            "C09" => c09::run(ctx),
            "C10" => c10::run(ctx),
            "C11" => c11::run(ctx),
            "C12" => c12::run(ctx),
            "C13" => {
                let mut ctx = ctx;
                ctx.level = "translation_validation".to_string();
                c13::run(ctx)
            }
            "C14" => c14::run(ctx),
            "C15" => c15::run(ctx),
            "C17" => c17::run(ctx),
            "C18" => c18::run(ctx),
            "C19" => c19::run(ctx),
            "C20" => c20::run(ctx),
            _ => {
                eprintln!("unknown property {}", id);
                2
            }
        }
    });
    match res {
        Ok(code) => std::process::exit(code),
        Err(e) => {
            eprintln!("MACHINERY-ERROR: engine panicked: {}", vcore::report::panic_msg(&e));
            std::process::exit(2)
        }
    }
}

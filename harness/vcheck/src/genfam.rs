//! `vcheck --gen-pager-family <out.jsonl> <r,t,p,l,k;...>`: (re)generates the stored family
//! F-pager. Every grammar of the given universes is pushed through the real state-graph
//! construction with the lrtable verification counters on; a grammar is kept when the construction
//! (a) creates states while re-processing a state that an earlier weak merge changed, or (b) ends
//! with a garbage collection that removes states. Those are the two paths of Pager's algorithm as
//! implemented that the plain universes of 2-3 tokens never reach. The output is a list of
//! grammars - inputs for the checks, nothing more; it stays valid whatever the code under test
//! does with them. The universes are enumerated exhaustively, so the file is reproducible.

use crate::common::*;
use rayon::prelude::*;
use serde_json::json;
use vcore::gram::{RefGrammar, Universe};

pub fn counters_of(g: &RefGrammar) -> Option<(u64, u64, u64)> {
    lrtable::verif_hooks::reset();
    let grm = vcore::real::build_grammar::<u32>(&g.to_yacc(), vcore::real::YK).ok()?;
    let sg = lrtable::from_yacc(&grm, lrtable::Minimiser::Pager);
    let _ = sg;
    Some(lrtable::verif_hooks::pager_counters())
}

pub fn main(out: &str, universes: &str) {
    vcore::report::quiet_panics();
    let mut kept: Vec<(RefGrammar, (u64, u64, u64))> = vec![];
    let mut seen = std::collections::HashSet::new();
    for u in universes.split(';') {
        let v: Vec<usize> = u.split(',').map(|n| n.trim().parse().unwrap_or_else(|_| machinery("universes: r,t,p,l,k;..."))).collect();
        if v.len() != 5 {
            machinery("universes: r,t,p,l,k;...");
        }
        let uni = Universe::new(v[0], v[1], v[2], v[3], v[4]);
        let gs = uni.enumerate();
        let n = gs.len();
        let found: Vec<(RefGrammar, (u64, u64, u64))> = gs
            .into_par_iter()
            .filter_map(|g| {
                let c = std::panic::catch_unwind(std::panic::AssertUnwindSafe(|| counters_of(&g))).ok().flatten()?;
                if c.1 > 0 || c.2 > 0 { Some((g, c)) } else { None }
            })
            .collect();
        eprintln!("{}: {} grammars, {} reach the re-processing / garbage-collection paths ({} create states while re-processing, {} garbage-collect)", uni.name(), n, found.len(), found.iter().filter(|x| x.1.1 > 0).count(), found.iter().filter(|x| x.1.2 > 0).count());
        for (g, c) in found {
            if seen.insert(g.clone()) {
                kept.push((g, c));
            }
        }
    }
    kept.sort_by(|a, b| (a.0.nsyms(), &a.0).cmp(&(b.0.nsyms(), &b.0)));
    let mut text = String::new();
    for (g, c) in &kept {
        text.push_str(&json!({"g": g.to_json(), "reprocessed": c.0, "new_while_reprocessing": c.1, "gc_removed": c.2}).to_string());
        text.push('\n');
    }
    std::fs::write(out, text).unwrap_or_else(|e| machinery(&format!("cannot write {}: {}", out, e)));
    eprintln!("wrote {} grammars to {}", kept.len(), out);
}

//! Helpers shared by the engines.
#![allow(dead_code)]

use serde_json::Value;
use vcore::gram::{RefGrammar, Universe};
use vcore::report::Ctx;

pub fn machinery(msg: &str) -> ! {
    eprintln!("MACHINERY-ERROR: {}", msg);
    std::process::exit(2)
}

/// All vectors in `vals^n`.
pub fn vectors(vals: &[u8], n: usize) -> Vec<Vec<u8>> {
    let mut out = vec![vec![]];
    for _ in 0..n {
        let mut next = vec![];
        for v in &out {
            for x in vals {
                let mut v2 = v.clone();
                v2.push(*x);
                next.push(v2);
            }
        }
        out = next;
    }
    out
}

pub fn load_replay(ctx: &Ctx) -> Option<Value> {
    let p = ctx.replay.as_ref()?;
    let s = std::fs::read_to_string(p).unwrap_or_else(|e| machinery(&format!("replay file: {}", e)));
    let v: Value =
        serde_json::from_str(&s).unwrap_or_else(|e| machinery(&format!("replay file: {}", e)));
    Some(v.get("case").cloned().unwrap_or(v))
}

pub fn replay_grammar(case: &Value) -> RefGrammar {
    RefGrammar::from_json(case.get("grammar").unwrap_or_else(|| machinery("replay: no grammar")))
        .unwrap_or_else(|| machinery("replay: bad grammar"))
}

pub fn universe_list(names: &[(usize, usize, usize, usize, usize)]) -> Vec<(String, Vec<RefGrammar>)> {
    names
        .iter()
        .map(|&(r, t, p, l, k)| {
            let u = Universe::new(r, t, p, l, k);
            (u.name(), u.enumerate())
        })
        .collect()
}

/// De-duplicated union of several universes (a grammar of a smaller universe is also a member of
/// the larger ones).
pub fn union(lists: Vec<(String, Vec<RefGrammar>)>) -> (Vec<RefGrammar>, Vec<(String, usize)>) {
    let mut seen = std::collections::HashSet::new();
    let mut out = vec![];
    let mut sizes = vec![];
    for (name, gs) in lists {
        sizes.push((name, gs.len()));
        for g in gs {
            if seen.insert(g.clone()) {
                out.push(g);
            }
        }
    }
    (out, sizes)
}

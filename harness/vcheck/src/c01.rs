//! C01 — a generated parser recognises exactly the grammar's language.
//! C02 — state minimisation never costs an LR(1) grammar its determinism.
//! C04 — a syntax error is reported at the first lexeme that cannot continue a sentence.
//!
//! One sweep: every grammar of the universes + structured families, built by the real pipeline,
//! x every token string up to length n, parsed by the real parser; compared with an Earley
//! recogniser / viable-prefix oracle and a canonical LR(1) construction + parser.

use crate::common::*;
use lrpar::RecoveryKind;
use rayon::prelude::*;
use serde_json::json;
use vcore::gram::{RefGrammar, all_inputs, family_pager, family_gc, family_lalr3, family_wide, input_alphabet, inputs_over, family_empty, family_chains, family_empty2, family_expr, family_lalr, family_lalr2, family_seeds, family_ternary, neighbourhood};
use vcore::real::{Built, Drv, HInput, build, parse};
use vcore::refs::{Earley, Lr1, analyse};
use vcore::report::Ctx;

#[derive(Clone, Copy, PartialEq, Eq)]
pub enum Mode {
    C01,
    C02,
    C04,
}

#[derive(Default, Clone)]
struct Stats {
    grammars: u64,
    built: u64,
    build_failed: u64,
    conflict_free: u64,
    lr1: u64,
    lr1_not_lalr_like: u64, // canonical LR(1) has more states than the minimised automaton
    cyclic_skipped: u64,
    parses: u64,
    accepted: u64,
    rejected: u64,
    loops_excluded: u64,
    states: u64,
    c04_cases: u64,
    c04_delayed_detection: u64,
    // tables on which the construction re-processed a state into new states / garbage-collected
    pager_new_while_reprocessing: u64,
    pager_gc: u64,
}

impl Stats {
    fn merge(mut self, o: Stats) -> Stats {
        self.grammars += o.grammars;
        self.built += o.built;
        self.build_failed += o.build_failed;
        self.conflict_free += o.conflict_free;
        self.lr1 += o.lr1;
        self.lr1_not_lalr_like += o.lr1_not_lalr_like;
        self.cyclic_skipped += o.cyclic_skipped;
        self.parses += o.parses;
        self.accepted += o.accepted;
        self.rejected += o.rejected;
        self.loops_excluded += o.loops_excluded;
        self.states += o.states;
        self.c04_cases += o.c04_cases;
        self.c04_delayed_detection += o.c04_delayed_detection;
        self.pager_new_while_reprocessing += o.pager_new_while_reprocessing;
        self.pager_gc += o.pager_gc;
        self
    }
}

fn check_grammar(ctx: &Ctx, mode: Mode, g: &RefGrammar, n: usize, only_input: Option<&Vec<usize>>) -> Stats {
    ctx.guard(
        &format!("building / querying the table of {}", g.short()),
        || json!({"grammar": g.to_json(), "input": [], "detail": null}),
        Stats::default(),
        || check_grammar_inner(ctx, mode, g, n, only_input),
    )
}

fn check_grammar_inner(ctx: &Ctx, mode: Mode, g: &RefGrammar, n: usize, only_input: Option<&Vec<usize>>) -> Stats {
    let mut st = Stats::default();
    st.grammars = 1;
    lrtable::verif_hooks::reset();
    let built = build(g);
    let (_, pnew, pgc) = lrtable::verif_hooks::pager_counters();
    if pnew > 0 {
        st.pager_new_while_reprocessing = 1;
    }
    if pgc > 0 {
        st.pager_gc = 1;
    }
    let b: Built<u32> = match built {
        Ok(b) => b,
        Err(vcore::real::BuildErr::Grammar(m)) => machinery(&format!("the harness rendered a grammar the front end rejects: {}: {}", g.short(), m)),
        Err(vcore::real::BuildErr::Names(m)) => machinery(&format!("harness cannot map names for {}: {}", g.short(), m)),
        Err(_) => {
            st.build_failed = 1;
            return st;
        }
    };
    st.built = 1;
    st.states = b.nstates() as u64;
    let an = analyse(g);
    let conflict_free = b.st.conflicts().is_none();
    if conflict_free {
        st.conflict_free = 1;
    }
    let case = |w: &Vec<usize>, extra: serde_json::Value| json!({"grammar": g.to_json(), "input": w, "detail": extra});

    // ---- C02, table level
    let lr = if mode == Mode::C02 { Some(Lr1::build(g)) } else { None };
    let is_lr1 = lr.as_ref().map(|l| l.conflicts == 0).unwrap_or(false);
    if mode == Mode::C02 {
        if !is_lr1 {
            return st;
        }
        st.lr1 = 1;
        let lr = lr.as_ref().unwrap();
        if !conflict_free {
            let c = b.st.conflicts().unwrap();
            ctx.violation(
                "lr1-conflicts",
                &format!(
                    "grammar is LR(1) (canonical automaton: {} states, no conflicts) but table construction reports {} shift/reduce and {} reduce/reduce conflicts: {}",
                    lr.nstates, c.sr_len(), c.rr_len(), g.short()
                ),
                case(&vec![], json!(null)),
            );
        }
        if b.nstates() > lr.nstates {
            ctx.violation(
                "more-states",
                &format!("minimised automaton has {} states, canonical LR(1) only {}: {}", b.nstates(), lr.nstates, g.short()),
                case(&vec![], json!(null)),
            );
        }
        if b.nstates() < lr.nstates {
            st.lr1_not_lalr_like = 1;
        }
    }
    if mode == Mode::C04 && !(conflict_free && an.all_productive()) {
        return st;
    }
    if an.any_cyclic() {
        // a Yacc-style parser may legitimately loop on cyclic grammars: table-level checks only
        st.cyclic_skipped = 1;
        if mode != Mode::C02 {
            return st;
        }
    }
    let ea = Earley::new(g);
    let drv = Drv::new(&b, n.max(8));
    let inputs: Vec<Vec<usize>> = match only_input {
        Some(w) => vec![w.clone()],
        None => {
            let alpha = input_alphabet(g);
            let mut v = inputs_over(&alpha, n);
            if alpha.len() > 5 {
                // "every string up to length 3" does not reach the sentences of these grammars:
                // add every sentence up to length 7 with its prefixes and single-token edits
                let seen: std::collections::HashSet<Vec<usize>> = v.iter().cloned().collect();
                v.extend(vcore::refs::sentence_neighbourhood(g, &alpha, 7, 200).into_iter().filter(|w| !seen.contains(w)));
            }
            v
        }
    };
    for w in &inputs {
        let real_toks: Vec<_> = w.iter().map(|t| b.tmap[*t]).collect();
        if !drv.terminates(&real_toks) {
            // the plain LR loop does not return on this (table, input): C07's subject
            st.loops_excluded += 1;
            continue;
        }
        let inp = HInput::new(w);
        st.parses += 1;
        let out = match ctx.guard(&format!("parsing {:?} with recovery off, {}", w, g.short()), || case(w, json!(null)), None, || Some(parse(&b, &inp, RecoveryKind::None, None))) {
            Some(o) => o,
            None => continue,
        };
        let (acc, viable) = ea.run(w);
        let accepted_clean = out.tree.is_some() && out.errors.is_empty();
        if accepted_clean {
            st.accepted += 1;
        } else {
            st.rejected += 1;
        }
        match mode {
            Mode::C01 => {
                if out.tree.is_some() != out.errors.is_empty() {
                    ctx.violation("c01-shape", &format!("recovery off: value present = {} but {} errors, input {:?}, {}", out.tree.is_some(), out.errors.len(), w, g.short()), case(w, json!(null)));
                }
                if accepted_clean {
                    let t = out.tree.as_ref().unwrap();
                    let ok = match t.to_tree(&inp) {
                        None => false,
                        Some(tr) => {
                            let mut fr = vec![];
                            tr.frontier(&mut fr);
                            let exp: Vec<(usize, usize)> = w.iter().cloned().zip(0..).collect();
                            let root_ok = matches!(&tr, vcore::refs::Tree::Node { rule: 0, .. });
                            root_ok && tr.valid_for(g) && fr == exp
                        }
                    };
                    if !ok {
                        ctx.violation(
                            "c01-tree",
                            &format!("accepted {:?} but the tree {} is not a derivation of exactly that input from the start rule: {}", w, t.shape(), g.short()),
                            case(w, json!({"tree": t.shape()})),
                        );
                    }
                    if !acc {
                        ctx.violation("c01-accepts-nonsentence", &format!("accepted {:?} which is not a sentence of {}", w, g.short()), case(w, json!(null)));
                    }
                } else if conflict_free && acc {
                    ctx.violation("c01-rejects-sentence", &format!("conflict-free table rejects the sentence {:?} of {}", w, g.short()), case(w, json!(null)));
                }
            }
            Mode::C02 => {
                let lr = lr.as_ref().unwrap();
                match lr.parse(w) {
                    Ok(tr) => {
                        let same = out.errors.is_empty() && out.tree.as_ref().and_then(|t| t.to_tree(&inp)).map(|t| t == tr).unwrap_or(false);
                        if !same {
                            ctx.violation(
                                "c02-tree",
                                &format!("canonical LR(1) parser accepts {:?} with tree {} but the real parser gives {:?} / {} errors: {}", w, tr.short(), out.tree.as_ref().map(|t| t.shape()), out.errors.len(), g.short()),
                                case(w, json!(null)),
                            );
                        }
                    }
                    Err(e) => {
                        let same = out.tree.is_none() && out.errors.len() == 1 && out.errors[0].lex_idx == Some(e);
                        if !same {
                            ctx.violation(
                                "c02-error",
                                &format!("canonical LR(1) parser fails on {:?} at lexeme {} but the real parser reports {:?}: {}", w, e, out.errors.iter().map(|x| x.lex_idx).collect::<Vec<_>>(), g.short()),
                                case(w, json!(null)),
                            );
                        }
                    }
                }
            }
            Mode::C04 => {
                if acc {
                    continue;
                }
                st.c04_cases += 1;
                // first k such that w[..=k] is not a viable prefix; len if w itself is viable
                let e = (0..w.len()).find(|k| !viable[k + 1]).unwrap_or(w.len());
                if !viable[0] {
                    // the language is empty: grammar has no sentence; cannot happen (all productive)
                    continue;
                }
                let ok_shape = out.tree.is_none() && out.errors.len() == 1;
                let ok_pos = ok_shape && out.errors[0].lex_idx == Some(e);
                let ok_eof = if ok_pos && e == w.len() {
                    let er = &out.errors[0];
                    er.tok == g.ntoks && er.span == (inp.end_of_last(), inp.end_of_last())
                } else {
                    true
                };
                if !(ok_shape && ok_pos && ok_eof) {
                    ctx.violation(
                        "c04-none",
                        &format!(
                            "recovery off: input {:?} stops being a sentence prefix at lexeme {} but the parser returned value={} errors at {:?} (spans {:?}): {}",
                            w, e, out.tree.is_some(),
                            out.errors.iter().map(|x| x.lex_idx).collect::<Vec<_>>(),
                            out.errors.iter().map(|x| x.span).collect::<Vec<_>>(),
                            g.short()
                        ),
                        case(w, json!({"expected_error_index": e})),
                    );
                }
                if ok_pos {
                    // was detection delayed by reductions (error state differs from the state
                    // after the last shift)? counted to show that merged lookaheads are exercised
                    st.c04_delayed_detection += 1;
                }
                // recovery on: first error at the same lexeme
                lrpar::verif_hooks::set_recovery_step_budget(5_000);
                let out2 = ctx.guard(&format!("parsing {:?} with recovery on, {}", w, g.short()), || case(w, json!(null)), None, || Some(parse(&b, &inp, RecoveryKind::CPCTPlus, None)));
                lrpar::verif_hooks::set_recovery_step_budget(u64::MAX);
                let out2 = match out2 {
                    Some(o) => o,
                    None => continue,
                };
                let ok2 = !out2.errors.is_empty() && out2.errors[0].lex_idx == Some(e);
                if !ok2 {
                    ctx.violation(
                        "c04-cpct",
                        &format!("recovery on: input {:?} stops being a sentence prefix at lexeme {} but the first error is at {:?}: {}", w, e, out2.errors.first().map(|x| x.lex_idx), g.short()),
                        case(w, json!({"expected_error_index": e})),
                    );
                }
            }
        }
    }
    st
}

fn grammar_space(ctx: &Ctx, mode: Mode) -> (Vec<RefGrammar>, Vec<(String, usize)>) {
    let lists = if ctx.quick() {
        universe_list(&[(2, 2, 2, 2, 6), (2, 2, 2, 3, 5), (3, 2, 1, 3, 5), (2, 3, 2, 2, 6), (3, 2, 2, 2, 5), (2, 1, 2, 3, 7)])
    } else {
        universe_list(&[(2, 2, 2, 2, 6), (2, 3, 2, 2, 6), (2, 2, 3, 2, 6), (3, 2, 2, 2, 6), (2, 2, 2, 3, 7), (2, 1, 2, 4, 8), (2, 1, 3, 3, 8)])
    };
    // ad-hoc exploration: VERIF_UNIVERSES="r,t,p,l,k;r,t,p,l,k" replaces the whole grammar space
    if let Ok(u) = std::env::var("VERIF_UNIVERSES") {
        let us: Vec<(usize, usize, usize, usize, usize)> = u
            .split(';')
            .map(|x| {
                let v: Vec<usize> = x.split(',').map(|n| n.trim().parse().unwrap_or_else(|_| machinery("VERIF_UNIVERSES: r,t,p,l,k;..."))).collect();
                if v.len() != 5 {
                    machinery("VERIF_UNIVERSES: r,t,p,l,k;...");
                }
                (v[0], v[1], v[2], v[3], v[4])
            })
            .collect();
        return union(universe_list(&us));
    }
    let (mut gs, mut sizes) = union(lists);
    let fams: Vec<(&str, Vec<RefGrammar>)> = vec![
        ("F-lalr", family_lalr()),
        ("F-lalr2", if mode == Mode::C02 { family_lalr2() } else { vec![] }),
        ("F-lalr3 (two-item kernels reached over paths of different lengths)", if mode == Mode::C04 && ctx.quick() { vec![] } else { family_lalr3(ctx.quick()) }),
        ("F-lalr4 (two-item kernels one level down with a third party feeding the same successors)", if ctx.quick() && mode != Mode::C02 { vec![] } else { vcore::gram::family_lalr4() }),
        ("F-gc (tables whose construction strands a state) with edit-distance-1 neighbourhoods", family_gc()),
        ("F-pager (stored: every grammar of eight universes up to U(2,2,3,4,8) / U(2,2,2,5,9) whose construction re-processes into new states or garbage-collects)", family_pager().into_iter().map(|m| m.g).collect()),
        ("F-ternary", family_ternary()),
        ("F-chains", family_chains()),
        ("F-empty", family_empty().into_iter().chain(family_empty2()).collect()),
        ("F-expr", family_expr()),
        ("F-seeds", family_seeds()),
        // (without the members that carry precedence declarations of their own: %nonassoc makes the
        // parser's language smaller than the grammar's, which is C03's subject)
        ("F-wide (tokens from index 62-120, rules from index 1-65)", family_wide().into_iter().filter(|g| g.precs.is_empty() && g.prod_prec.is_empty()).collect()),
    ];
    for (n, f) in fams {
        sizes.push((n.to_string(), f.len()));
        gs.extend(f);
    }
    if !ctx.quick() || mode == Mode::C02 {
        let mut nb = vec![];
        for s in family_seeds() {
            if s.nsyms() <= 16 || !ctx.quick() {
                nb.extend(neighbourhood(&s));
            }
        }
        sizes.push(("F-seeds edit-distance-1 neighbourhood".to_string(), nb.len()));
        gs.extend(nb);
    }
    (gs, sizes)
}

pub fn run(ctx: Ctx, mode: Mode) -> i32 {
    lrpar::verif_hooks::set_recovery_budget_ms(3_600_000);
    if let Some(case) = load_replay(&ctx) {
        let g = replay_grammar(&case);
        let w: Vec<usize> = case["input"].as_array().map(|a| a.iter().map(|x| x.as_u64().unwrap() as usize).collect()).unwrap_or_default();
        check_grammar(&ctx, mode, &g, w.len().max(1), Some(&w));
        return ctx.finish(json!({"states":1,"transitions":1,"traces_validated_against_impl":1,"samples":[case]}), &[], false);
    }
    let (gs, sizes) = grammar_space(&ctx, mode);
    let n_small = if ctx.quick() { 5 } else { 6 };
    // self-test of the references against brute-force enumeration (machinery check, not a verdict)
    let nself = if ctx.quick() { 4000 } else { 30000 };
    let bad: Vec<String> = gs
        .par_iter()
        .take(nself)
        .filter_map(|g| {
            let lang = vcore::refs::bounded_languages(g, 5);
            let pref = vcore::refs::bounded_prefixes(g, 5);
            let ea = Earley::new(g);
            let lr = Lr1::build(g);
            for w in all_inputs(g.ntoks, if g.ntoks <= 2 { 5 } else { 4 }) {
                let wb: Vec<u8> = w.iter().map(|t| *t as u8).collect();
                let (acc, viable) = ea.run(&w);
                if acc != lang[0].contains(&wb) {
                    return Some(format!("Earley vs enumeration on {:?} for {}", w, g.short()));
                }
                if viable[w.len()] != pref.contains(&wb) {
                    return Some(format!("viable prefix vs enumeration on {:?} for {}", w, g.short()));
                }
                if lr.conflicts == 0 && lr.parse(&w).is_ok() != acc {
                    return Some(format!("canonical LR(1) vs Earley on {:?} for {}", w, g.short()));
                }
            }
            None
        })
        .collect();
    if !bad.is_empty() {
        machinery(&format!("reference models disagree with each other: {}", bad[0]));
    }
    ctx.set("reference_selftest_grammars", nself.min(gs.len()) as u64);
    let stats = gs
        .par_iter()
        .map(|g| {
            // alphabets of > 3 tokens get shorter inputs (families), to keep |T|^n bounded
            let na = input_alphabet(g).len();
            let n = if na <= 2 { n_small + 1 } else if na == 3 { n_small } else if na <= 5 { 4 } else { 3 };
            check_grammar(&ctx, mode, g, n, None)
        })
        .reduce(Stats::default, |a, b| a.merge(b));
    // vacuity guards
    match mode {
        Mode::C01 => {
            if stats.accepted == 0 || stats.rejected == 0 || stats.conflict_free == 0 {
                machinery("vacuous exploration (C01)");
            }
        }
        Mode::C02 => {
            if stats.lr1 == 0 || stats.lr1_not_lalr_like == 0 {
                machinery("vacuous exploration (C02): no LR(1) grammar on which minimisation merged states");
            }
        }
        Mode::C04 => {
            if stats.c04_cases == 0 {
                machinery("vacuous exploration (C04)");
            }
        }
    }
    for g in gs.iter().filter(|g| g.nsyms() >= 5).take(2) {
        ctx.sample(json!({"grammar": g.short(), "inputs": "every token string up to the length bound"}));
    }
    ctx.sample(json!({"grammar": family_lalr()[100].short(), "inputs": "every token string of length <= 4"}));
    let nontrivial = match mode {
        Mode::C01 => stats.conflict_free,
        Mode::C02 => stats.lr1_not_lalr_like,
        Mode::C04 => stats.c04_cases,
    };
    let cov = json!({
        "states": stats.states,
        "transitions": stats.parses,
        "traces_validated_against_impl": stats.parses,
        "evaluations": stats.parses,
        "distinct_nontrivial": nontrivial,
        "rule": match mode {
            Mode::C01 => "grammar x input; non-trivial grammars = conflict-free tables (both directions of language equality are checked there)",
            Mode::C02 => "LR(1) grammar x input; non-trivial = grammars whose minimised automaton has fewer states than the canonical one (merging happened)",
            Mode::C04 => "conflict-free productive grammar x rejected input; each is one viable-prefix comparison with and without recovery",
        },
        "universes": sizes.iter().map(|(n, s)| json!({"name": n, "size": s})).collect::<Vec<_>>(),
        "grammars": stats.grammars,
        "grammars_built": stats.built,
        "grammars_rejected_accept_reduce": stats.build_failed,
        "conflict_free_tables": stats.conflict_free,
        "lr1_grammars": stats.lr1,
        "lr1_grammars_where_minimisation_merged_states": stats.lr1_not_lalr_like,
        "cyclic_grammars_table_only": stats.cyclic_skipped,
        "parses": stats.parses,
        "accepted": stats.accepted,
        "rejected": stats.rejected,
        "table_input_pairs_excluded_nonterminating": stats.loops_excluded,
        "tables_whose_construction_garbage_collects_states": stats.pager_gc,
        "tables_whose_construction_creates_states_while_reprocessing": stats.pager_new_while_reprocessing,
        "input_length_bound": format!("<= {} for <= 2 tokens, {} for 3, 4 for 4-5, 3 beyond", n_small + 1, n_small),
    });
    ctx.finish(cov, &["Earley recogniser / viable-prefix oracle and canonical LR(1) are the references (cross-validated against brute-force language enumeration in the self-test)", "(table, input) pairs on which the plain LR loop does not return are excluded here and handled by C07"], true)
}

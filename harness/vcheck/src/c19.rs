//! C19 — byte offsets map to the right lines and columns; line extraction never fails.
//!
//! Every string up to the length bound over {a, é, \n, \r}, every way of feeding it in up to four
//! pieces, every character-boundary offset and every span on character boundaries, against a
//! three-line naive reference; then `LRNonStreamingLexer::{line_col, span_lines_str}` and
//! `LexParseError::pp` on real lexing / parsing errors at every position.

use crate::common::*;
use cfgrammar::{NewlineCache, Span};
use rayon::prelude::*;
use serde_json::json;
use std::panic::{AssertUnwindSafe, catch_unwind};
use vcore::report::{Ctx, panic_msg};

const ALPHA: [char; 4] = ['a', 'é', '\n', '\r'];

fn all_strings(maxlen: usize) -> Vec<String> {
    let mut out = vec![String::new()];
    let mut layer = vec![String::new()];
    for _ in 0..maxlen {
        let mut next = vec![];
        for s in &layer {
            for c in ALPHA {
                let mut t = s.clone();
                t.push(c);
                next.push(t);
            }
        }
        out.extend(next.iter().cloned());
        layer = next;
    }
    out
}

fn boundaries(s: &str) -> Vec<usize> {
    let mut v: Vec<usize> = s.char_indices().map(|(i, _)| i).collect();
    v.push(s.len());
    v
}

// ---- reference (naive)
fn ref_line(s: &str, off: usize) -> usize {
    1 + s[..off].matches('\n').count()
}
fn ref_line_start(s: &str, off: usize) -> usize {
    s[..off].rfind('\n').map(|i| i + 1).unwrap_or(0)
}
fn ref_line_end(s: &str, off: usize) -> usize {
    s[off..].find('\n').map(|i| off + i).unwrap_or(s.len())
}
/// acceptable columns for `off`: one plus the characters since the line began; when `off` points
/// at the LF of a CR LF pair the pair "counts once", which can be read either way
fn ref_cols(s: &str, off: usize) -> Vec<usize> {
    let ls = ref_line_start(s, off);
    let k = s[ls..off].chars().count();
    if off < s.len() && s[off..].starts_with('\n') && s[..off].ends_with('\r') {
        vec![k, k + 1]
    } else {
        vec![k + 1]
    }
}
/// acceptable line extents for a span
fn ref_extents(s: &str, st: usize, en: usize) -> Vec<(usize, usize)> {
    let start = ref_line_start(s, st);
    if st == en {
        return vec![(start, ref_line_end(s, st))];
    }
    let last_char = s[..en].char_indices().next_back().map(|(i, _)| i).unwrap();
    let strict = (start, ref_line_end(s, last_char));
    let mut v = vec![strict];
    if s[..en].ends_with('\n') {
        // the span ends exactly on a line start: the existing tests pin "that next line is included"
        v.push((start, ref_line_end(s, en)));
    }
    v
}

fn esc(s: &str) -> String {
    s.replace('\n', "\\n").replace('\r', "\\r")
}

#[derive(Default, Clone)]
struct Stats {
    strings: u64,
    chunkings: u64,
    offset_checks: u64,
    span_checks: u64,
    spans_ending_on_line_start: u64,
    crlf_offsets: u64,
    pp_checks: u64,
}
impl Stats {
    fn merge(mut self, o: Stats) -> Stats {
        self.strings += o.strings;
        self.chunkings += o.chunkings;
        self.offset_checks += o.offset_checks;
        self.span_checks += o.span_checks;
        self.spans_ending_on_line_start += o.spans_ending_on_line_start;
        self.crlf_offsets += o.crlf_offsets;
        self.pp_checks += o.pp_checks;
        self
    }
}

fn chunkings(s: &str, max_chunks: usize) -> Vec<Vec<&str>> {
    // all non-decreasing cut vectors of length max_chunks-1 over the char boundaries
    let b = boundaries(s);
    let mut out = vec![];
    let k = max_chunks - 1;
    let mut idx = vec![0usize; k];
    loop {
        let mut pieces = vec![];
        let mut prev = 0;
        for i in 0..k {
            pieces.push(&s[prev..b[idx[i]]]);
            prev = b[idx[i]];
        }
        pieces.push(&s[prev..]);
        out.push(pieces);
        // next non-decreasing vector
        let mut i = k;
        loop {
            if i == 0 {
                return out;
            }
            i -= 1;
            if idx[i] + 1 < b.len() {
                idx[i] += 1;
                for j in i + 1..k {
                    idx[j] = idx[i];
                }
                break;
            }
        }
    }
}

/// Queries between the feeds: after every piece, every offset of the text fed so far is looked up
/// (a cache that remembers anything about an earlier lookup must forget it when more text arrives).
fn check_interleaved(ctx: &Ctx, s: &str, pieces: &[&str], st: &mut Stats) {
    let case = || json!({"text": s, "pieces": pieces, "interleaved": true});
    let r = catch_unwind(AssertUnwindSafe(|| {
        let mut c = NewlineCache::new();
        let mut prefix = String::new();
        let mut bad: Option<String> = None;
        for p in pieces {
            c.feed(p);
            prefix.push_str(p);
            // ascending and descending, so that the last lookup before the next feed is once at the
            // end and once at the start of the text
            let b = boundaries(&prefix);
            let order: Vec<usize> = if prefix.len() % 2 == 0 { b.clone() } else { b.iter().rev().cloned().collect() };
            for off in order {
                let got = (c.byte_to_line_num(off), c.byte_to_line_byte(off), c.byte_to_line_num_and_col_num(&prefix, off));
                let el = ref_line(&prefix, off);
                let els = ref_line_start(&prefix, off);
                let ok = got.0 == Some(el) && got.1 == Some(els) && matches!(got.2, Some((l, col)) if l == el && ref_cols(&prefix, off).contains(&col));
                if !ok && bad.is_none() {
                    bad = Some(format!("after feeding {:?} of the pieces, offset {} of \"{}\": (line, line start, line/col) = {:?}, expected line {} starting at {}", prefix.len(), off, esc(&prefix), got, el, els));
                }
            }
        }
        bad
    }));
    st.offset_checks += 1;
    match r {
        Err(e) => ctx.violation("c19-interleaved-panic", &format!("look-ups between the feeds of {:?} panicked: {}", pieces.iter().map(|p| esc(p)).collect::<Vec<_>>(), panic_msg(&e)), case()),
        Ok(Some(msg)) => ctx.violation("c19-interleaved", &format!("{} (pieces {:?})", msg, pieces.iter().map(|p| esc(p)).collect::<Vec<_>>()), case()),
        Ok(None) => {}
    }
}

/// line_col through the lexer for a long text: every span that starts or ends in the last three lines.
fn check_long_lexer_level(ctx: &Ctx, s: &str, st: &mut Stats) {
    use lrlex::{DefaultLexerTypes, LRNonStreamingLexerDef, LexerDef};
    use lrpar::NonStreamingLexer;
    let case = || json!({"text": s, "level": "lexer"});
    let ld = LRNonStreamingLexerDef::<DefaultLexerTypes<u32>>::from_str("%%\n[aé] 'A'\n[\\n\\r] ;\n").unwrap();
    let lexer = ld.lexer(s);
    let b = boundaries(s);
    let tail_start = {
        let mut nl = 0;
        let mut at = 0;
        for (i, c) in s.char_indices().rev() {
            if c == '\n' {
                nl += 1;
                if nl == 4 {
                    at = i + 1;
                    break;
                }
            }
        }
        at
    };
    for &a in b.iter().filter(|x| **x >= tail_start) {
        for &e in b.iter().filter(|x| **x >= a) {
            st.span_checks += 1;
            match catch_unwind(AssertUnwindSafe(|| lexer.line_col(cfgrammar::Span::new(a, e)))) {
                Err(err) => ctx.violation("c19-lexer-panic", &format!("line_col(({}, {})) of a {}-byte text panicked: {}", a, e, s.len(), panic_msg(&err)), case()),
                Ok(((l1, c1), (l2, c2))) => {
                    let ok = l1 == ref_line(s, a) && ref_cols(s, a).contains(&c1) && l2 == ref_line(s, e) && ref_cols(s, e).contains(&c2);
                    if !ok {
                        ctx.violation("c19-line_col", &format!("line_col(({}, {})) of \"{}\" = {:?}", a, e, esc(s), ((l1, c1), (l2, c2))), case());
                    }
                }
            }
        }
    }
}

fn check_cache(ctx: &Ctx, s: &str, pieces: &[&str], st: &mut Stats, full: bool) {
    if pieces.iter().filter(|p| !p.is_empty()).count() >= 2 {
        check_interleaved(ctx, s, pieces, st);
    }
    let case = || json!({"text": s, "pieces": pieces});
    let nc = match catch_unwind(AssertUnwindSafe(|| {
        let mut c = NewlineCache::new();
        for p in pieces {
            c.feed(p);
        }
        c
    })) {
        Ok(c) => c,
        Err(e) => {
            ctx.violation("c19-feed-panic", &format!("feeding {:?} panicked: {}", pieces.iter().map(|p| esc(p)).collect::<Vec<_>>(), panic_msg(&e)), case());
            return;
        }
    };
    let b = boundaries(s);
    for &off in &b {
        st.offset_checks += 1;
        let r = catch_unwind(AssertUnwindSafe(|| (nc.byte_to_line_num(off), nc.byte_to_line_byte(off), nc.byte_to_line_num_and_col_num(s, off))));
        match r {
            Err(e) => ctx.violation("c19-offset-panic", &format!("offset {} of \"{}\" (fed as {:?}): panic {}", off, esc(s), pieces.iter().map(|p| esc(p)).collect::<Vec<_>>(), panic_msg(&e)), case()),
            Ok((ln, lb, lc)) => {
                let el = ref_line(s, off);
                let cols = ref_cols(s, off);
                if cols.len() > 1 {
                    st.crlf_offsets += 1;
                }
                if ln != Some(el) {
                    ctx.violation("c19-line", &format!("byte_to_line_num({}) = {:?}, expected {} in \"{}\" fed as {:?}", off, ln, el, esc(s), pieces.iter().map(|p| esc(p)).collect::<Vec<_>>()), case());
                }
                if lb != Some(ref_line_start(s, off)) {
                    ctx.violation("c19-line-byte", &format!("byte_to_line_byte({}) = {:?}, expected {} in \"{}\"", off, lb, ref_line_start(s, off), esc(s)), case());
                }
                match lc {
                    Some((l, c)) if l == el && cols.contains(&c) => {}
                    other => ctx.violation("c19-col", &format!("byte_to_line_num_and_col_num({}) = {:?}, expected line {} column {:?} in \"{}\"", off, other, el, cols, esc(s)), case()),
                }
            }
        }
    }
    // beyond the fed length
    for off in [s.len() + 1, s.len() + 7] {
        if let Ok(r) = catch_unwind(AssertUnwindSafe(|| (nc.byte_to_line_num(off), nc.byte_to_line_num_and_col_num(s, off)))) {
            if r.0.is_some() || r.1.is_some() {
                ctx.violation("c19-beyond", &format!("offset {} beyond the text \"{}\" is given a line: {:?}", off, esc(s), r), case());
            }
        } else {
            ctx.violation("c19-beyond-panic", &format!("offset {} beyond the text \"{}\": panic", off, esc(s)), case());
        }
    }
    // long texts (`full` = false): spans among the first three and the last twelve boundaries
    let bs: Vec<usize> = if full || b.len() <= 15 { b.clone() } else { b[..3].iter().chain(b[b.len() - 12..].iter()).cloned().collect() };
    for (i, &a) in bs.iter().enumerate() {
        for &e in &bs[i..] {
            st.span_checks += 1;
            let exts = ref_extents(s, a, e);
            if exts.len() > 1 {
                st.spans_ending_on_line_start += 1;
            }
            match catch_unwind(AssertUnwindSafe(|| nc.span_line_bytes(Span::new(a, e)))) {
                Err(err) => ctx.violation("c19-span-panic", &format!("span_line_bytes(({}, {})) of \"{}\" panicked: {}", a, e, esc(s), panic_msg(&err)), case()),
                Ok(got) => {
                    if !exts.contains(&got) {
                        ctx.violation("c19-span", &format!("span_line_bytes(({}, {})) of \"{}\" = {:?}, expected one of {:?}", a, e, esc(s), got, exts), case());
                    }
                }
            }
        }
    }
}

// ---- lexer / error pretty-printing level
fn check_lexer_level(ctx: &Ctx, s: &str, st: &mut Stats) {
    use cfgrammar::yacc::{YaccGrammar, YaccKind, YaccOriginalActionKind};
    use lrlex::{DefaultLexerTypes, LRNonStreamingLexerDef, LexerDef};
    use lrpar::{Lexer, LexParseError, NonStreamingLexer, RTParserBuilder, RecoveryKind};
    let case = || json!({"text": s, "level": "lexer"});
    // grammar: any number of A; E is a token the grammar never uses => parse error at the first é
    let grm = YaccGrammar::<u32>::new_with_storaget(YaccKind::Original(YaccOriginalActionKind::NoAction), "%start S\n%token E\n%%\nS: | S 'A';\n").unwrap();
    let (_, stable) = lrtable::from_yacc(&grm, lrtable::Minimiser::Pager).unwrap();
    for lex_err in [false, true] {
        let src = if lex_err { "%%\na 'A'\n[\\n\\r] ;\n" } else { "%%\na 'A'\né 'E'\n[\\n\\r] ;\n" };
        let mut ld = LRNonStreamingLexerDef::<DefaultLexerTypes<u32>>::from_str(src).unwrap();
        let map: std::collections::HashMap<&str, u32> = grm.tokens_map().into_iter().map(|(k, v)| (k, v.as_storaget())).collect();
        ld.set_rule_ids(&map);
        let lexer = ld.lexer(s);
        let mut cache_whole = cfgrammar::newlinecache::NewlineCache::new();
        cache_whole.feed(s);
        // line_col / span_lines_str on every span
        let b = boundaries(s);
        for (i, &a) in b.iter().enumerate() {
            for &e in &b[i..] {
                st.span_checks += 1;
                match catch_unwind(AssertUnwindSafe(|| (lexer.line_col(Span::new(a, e)), lexer.span_lines_str(Span::new(a, e)).to_string()))) {
                    Err(err) => ctx.violation("c19-lexer-panic", &format!("line_col / span_lines_str(({}, {})) of \"{}\" panicked: {}", a, e, esc(s), panic_msg(&err)), case()),
                    Ok((((l1, c1), (l2, c2)), text)) => {
                        let ok = l1 == ref_line(s, a) && ref_cols(s, a).contains(&c1) && l2 == ref_line(s, e) && ref_cols(s, e).contains(&c2);
                        if !ok {
                            ctx.violation("c19-line_col", &format!("line_col(({}, {})) of \"{}\" = {:?}", a, e, esc(s), ((l1, c1), (l2, c2))), case());
                        }
                        // whichever way "a CR LF pair counts once" is read at the LF itself, the
                        // two public routes to a position must read it the same way: line_col of
                        // a span is the cache's answer for its two ends
                        let direct = (cache_whole.byte_to_line_num_and_col_num(s, a), cache_whole.byte_to_line_num_and_col_num(s, e));
                        if direct != (Some((l1, c1)), Some((l2, c2))) {
                            ctx.violation(
                                "c19-line_col-vs-cache",
                                &format!("line_col(({}, {})) of \"{}\" = {:?} but NewlineCache::byte_to_line_num_and_col_num gives {:?} for the same two offsets", a, e, esc(s), ((l1, c1), (l2, c2)), direct),
                                case(),
                            );
                        }
                        if !ref_extents(s, a, e).iter().any(|(x, y)| &s[*x..*y] == text) {
                            ctx.violation("c19-span_lines_str", &format!("span_lines_str(({}, {})) of \"{}\" = \"{}\"", a, e, esc(s), esc(&text)), case());
                        }
                    }
                }
            }
        }
        // error pretty printing
        let first_e = s.find('é');
        let r = catch_unwind(AssertUnwindSafe(|| {
            let pb = RTParserBuilder::new(&grm, &stable).recoverer(RecoveryKind::None);
            let errs: Vec<LexParseError<u32, DefaultLexerTypes<u32>>> = pb.parse_map(&lexer, &|_| (), &|_, _| ()).1;
            errs.iter().map(|e| e.pp(&lexer, &|t| grm.token_epp(t))).collect::<Vec<String>>()
        }));
        st.pp_checks += 1;
        match r {
            Err(err) => ctx.violation("c19-pp-panic", &format!("pretty-printing the errors of \"{}\" panicked: {}", esc(s), panic_msg(&err)), case()),
            Ok(msgs) => match first_e {
                None => {
                    if !msgs.is_empty() {
                        ctx.violation("c19-pp-unexpected", &format!("unexpected errors for \"{}\": {:?}", esc(s), msgs), case());
                    }
                }
                Some(p) => {
                    let l = ref_line(s, p);
                    let ok = msgs.len() == 1
                        && ref_cols(s, p).iter().any(|c| {
                            let pre = format!("{} error at line {} column {}.", if lex_err { "Lexing" } else { "Parsing" }, l, c);
                            msgs[0].starts_with(&pre)
                        });
                    if !ok {
                        ctx.violation("c19-pp", &format!("error at byte {} of \"{}\" (line {}, column {:?}) printed as {:?}", p, esc(s), l, ref_cols(s, p), msgs), case());
                    }
                }
            },
        }
        let _ = lexer.iter().count();
    }
}

pub fn run(ctx: Ctx) -> i32 {
    if let Some(case) = load_replay(&ctx) {
        let s = case["text"].as_str().unwrap_or("").to_string();
        let mut st = Stats::default();
        if case["level"] == "lexer" {
            check_lexer_level(&ctx, &s, &mut st);
        } else {
            let pieces: Vec<String> = case["pieces"].as_array().map(|a| a.iter().map(|x| x.as_str().unwrap_or("").to_string()).collect()).unwrap_or(vec![s.clone()]);
            let pr: Vec<&str> = pieces.iter().map(|x| x.as_str()).collect();
            check_cache(&ctx, &s, &pr, &mut st, true);
        }
        return ctx.finish(json!({"states":1,"transitions":1,"traces_validated_against_impl":1,"samples":[case]}), &[], false);
    }
    let (n, nchunk, nlex) = if ctx.quick() { (7, 6, 6) } else { (12, 8, 8) };
    let strings = all_strings(n);
    let stats = strings
        .par_iter()
        .map(|s| {
            let mut st = Stats::default();
            st.strings = 1;
            let chars = s.chars().count();
            let chs = if chars <= nchunk { chunkings(s, 4) } else { chunkings(s, 2) };
            for pieces in &chs {
                st.chunkings += 1;
                check_cache(&ctx, s, pieces, &mut st, true);
            }
            if chars <= nlex {
                check_lexer_level(&ctx, s, &mut st);
            }
            st
        })
        .reduce(Stats::default, |a, b| a.merge(b));
    // Many lines: texts of 1 .. 70 lines (a size-dependent strategy - say, another search above some
    // number of lines - must agree with the naive reference on both sides of its threshold). Line
    // body "", "a" or "é", line ends LF or CR LF, last line with or without a terminator; fed whole
    // and in two pieces cut at every 7th character boundary; every offset, and through the lexer every
    // span that starts or ends within the last three lines.
    let mut longs: Vec<String> = vec![];
    for lines in 1..=70usize {
        for body in ["", "a", "é"] {
            for eol in ["\n", "\r\n"] {
                for terminated in [true, false] {
                    let mut t = String::new();
                    for k in 0..lines {
                        t.push_str(body);
                        if k + 1 < lines || terminated {
                            t.push_str(eol);
                        }
                    }
                    longs.push(t);
                }
            }
        }
    }
    let long_stats = longs
        .par_iter()
        .map(|s| {
            let mut st = Stats::default();
            st.strings = 1;
            check_cache(&ctx, s, &[s.as_str()], &mut st, false);
            let b = boundaries(s);
            for cut in b.iter().step_by(7) {
                st.chunkings += 1;
                check_cache(&ctx, s, &[&s[..*cut], &s[*cut..]], &mut st, false);
            }
            check_long_lexer_level(&ctx, s, &mut st);
            st
        })
        .reduce(Stats::default, |a, b| a.merge(b));
    ctx.set("many_line_texts", longs.len() as u64);
    let stats = stats.merge(long_stats);
    if stats.spans_ending_on_line_start == 0 || stats.crlf_offsets == 0 || stats.pp_checks == 0 {
        machinery("vacuous exploration (C19)");
    }
    ctx.sample(json!({"text": "a\\nb\\n", "pieces": ["a\\n", "", "b\\n"], "queries": "every boundary offset; every span (s <= e)"}));
    ctx.sample(json!({"text": "é\\r\\na", "pieces": ["é\\r", "\\na"], "queries": "every boundary offset; every span (s <= e)"}));
    let cov = json!({
        "states": stats.strings,
        "transitions": stats.offset_checks + stats.span_checks,
        "traces_validated_against_impl": stats.offset_checks + stats.span_checks + stats.pp_checks,
        "evaluations": stats.chunkings,
        "distinct_nontrivial": stats.spans_ending_on_line_start,
        "rule": "every string up to the bound over {a, é, LF, CR} x every feeding in <= 4 pieces (2 for the longest strings) x every boundary offset and span; non-trivial = spans that end exactly on a line start",
        "strings": stats.strings,
        "max_chars": n,
        "chunkings": stats.chunkings,
        "offset_checks": stats.offset_checks,
        "span_checks": stats.span_checks,
        "spans_ending_on_line_start": stats.spans_ending_on_line_start,
        "offsets_on_the_LF_of_a_CRLF_pair": stats.crlf_offsets,
        "pretty_print_checks": stats.pp_checks,
    });
    ctx.finish(cov, &["a non-empty span that ends exactly on a line start may or may not include the line starting there (the repository's own test pins 'includes')", "the column of the LF of a CR LF pair may be that of the CR or one more"], true)
}

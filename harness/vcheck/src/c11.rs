//! C11 — a lexer definition is a faithful image of its `.l` source.
//!
//! Abstract lex specifications x renderings: (a) denotation of escapes (what the built rule
//! matches vs a canonical regex of the abstract rule, on every short string), (b) structure
//! (rules, names, start states, targets, ids in source order), (c) flags given in the %grmtools
//! section vs through `new_with_options`, (d) spans of names, start-state names and errors index
//! the text the user wrote (with and without a %grmtools section).

use crate::c09::{LRule, LSpec, Target, ref_lex};
use crate::common::*;
use cfgrammar::Spanned;
use lrlex::{DefaultLexerTypes, LRNonStreamingLexerDef, LexFlags, LexerDef, StartStateOperation};
use lrpar::{Lexeme, Lexer};
use rayon::prelude::*;
use regex::RegexBuilder;
use serde_json::json;
use vcore::report::Ctx;

type LD = LRNonStreamingLexerDef<DefaultLexerTypes<u32>>;

/// An atom of a rule's regular expression: its renderings in a `.l` file and what it denotes
/// (a regex in the regex crate's own syntax).
struct Atom {
    renderings: &'static [&'static str],
    canon: &'static str,
    canon_posix: Option<&'static str>,
    /// may not start a rule (would be read as a start-state prefix)
    not_first: bool,
}

const ATOMS: &[Atom] = &[
    Atom { renderings: &["a"], canon: "a", canon_posix: None, not_first: false },
    Atom { renderings: &["q", "\\q"], canon: "q", canon_posix: None, not_first: false },
    Atom { renderings: &["é", "\\é"], canon: "é", canon_posix: None, not_first: false },
    Atom { renderings: &["<", "\\<"], canon: "<", canon_posix: None, not_first: true },
    Atom { renderings: &["\"", "\\\""], canon: "\"", canon_posix: None, not_first: false },
    Atom { renderings: &["'", "\\'"], canon: "'", canon_posix: None, not_first: false },
    Atom { renderings: &[";", "\\;"], canon: ";", canon_posix: None, not_first: false },
    Atom { renderings: &["\\ ", "[ ]"], canon: " ", canon_posix: None, not_first: false },
    Atom { renderings: &["\\."], canon: "\\.", canon_posix: None, not_first: false },
    Atom { renderings: &["\\\\"], canon: "\\\\", canon_posix: None, not_first: false },
    Atom { renderings: &["\\n"], canon: "\\n", canon_posix: None, not_first: false },
    Atom { renderings: &["\\d"], canon: "[0-9]", canon_posix: None, not_first: false },
    Atom { renderings: &["\\x41"], canon: "A", canon_posix: None, not_first: false },
    Atom { renderings: &["\\b"], canon: "\\b", canon_posix: Some("\\x08"), not_first: false },
    Atom { renderings: &["."], canon: "(?s:.)", canon_posix: None, not_first: false },
    Atom { renderings: &["\\*"], canon: "\\*", canon_posix: None, not_first: false },
    Atom { renderings: &["a+"], canon: "a+", canon_posix: None, not_first: false },
    // the character that closes a start-state list and a target state (after a prefix the regex
    // must still be allowed to contain it)
    Atom { renderings: &[">", "\\>"], canon: ">", canon_posix: None, not_first: false },
    // characters that are white space to Unicode (White_Space) but not to lex (Pattern_White_Space):
    // they belong to the regular expression wherever they stand, also right before the separator
    Atom { renderings: &["\u{a0}", "\\\u{a0}"], canon: "\u{a0}", canon_posix: None, not_first: false },
    Atom { renderings: &["\u{3000}"], canon: "\u{3000}", canon_posix: None, not_first: false },
];

const DEN_ALPHABET: [&str; 17] = ["a", "q", "é", "<", "\"", "'", ";", " ", ".", "\\", "\n", "5", "A", "\u{8}", "\u{a0}", "\u{3000}", ">"];

fn strings(alpha: &[&str], n: usize) -> Vec<String> {
    let mut out = vec![String::new()];
    let mut layer = vec![String::new()];
    for _ in 0..n {
        let mut next = vec![];
        for s in &layer {
            for c in alpha {
                next.push(format!("{}{}", s, c));
            }
        }
        out.extend(next.iter().cloned());
        layer = next;
    }
    out
}

#[derive(Default, Clone)]
struct Stats {
    specs: u64,
    comparisons: u64,
    span_checks: u64,
    error_specs: u64,
    with_header: u64,
}
impl Stats {
    fn merge(mut self, o: Stats) -> Stats {
        self.specs += o.specs;
        self.comparisons += o.comparisons;
        self.span_checks += o.span_checks;
        self.error_specs += o.error_specs;
        self.with_header += o.with_header;
        self
    }
}

fn real_lex(ld: &LD, input: &str) -> Vec<Result<(u32, usize, usize), usize>> {
    use lrpar::LexError;
    ld.lexer(input)
        .iter()
        .map(|r| match r {
            Ok(l) => Ok((l.tok_id(), l.span().start(), l.span().len())),
            Err(e) => Err(e.span().start()),
        })
        .collect()
}

fn esc(s: &str) -> String {
    s.replace('\n', "\\n").replace('\u{8}', "\\x08")
}

// ---------------- (a) denotation
fn check_denotation(ctx: &Ctx, atoms: &[usize], choice: &[usize], quote: char, prefix: bool, posix: bool, header: bool, inputs: &[String], st: &mut Stats) {
    let what = format!("atoms {:?} renderings {:?} quote {:?} prefix {} posix {} header {}", atoms, choice, quote, prefix, posix, header);
    ctx.guard(
        &format!("building / running a lexer ({})", what),
        || json!({"spec": what, "part": "denotation"}),
        (),
        || check_denotation_inner(ctx, atoms, choice, quote, prefix, posix, header, inputs, st),
    )
}

fn check_denotation_inner(ctx: &Ctx, atoms: &[usize], choice: &[usize], quote: char, prefix: bool, posix: bool, header: bool, inputs: &[String], st: &mut Stats) {
    let mut re_text = String::new();
    let mut canon = String::new();
    for (k, a) in atoms.iter().enumerate() {
        let at = &ATOMS[*a];
        re_text.push_str(at.renderings[choice[k]]);
        canon.push_str(if posix { at.canon_posix.unwrap_or(at.canon) } else { at.canon });
    }
    let mut text = String::new();
    if posix || header {
        text.push_str(&format!("%grmtools{{{}}}\n", if posix { "posix_escapes" } else { "!posix_escapes" }));
    }
    text.push_str("%%\n");
    if prefix {
        text.push_str("<INITIAL>");
    }
    text.push_str(&re_text);
    text.push_str(&format!(" {}T{}\n", quote, quote));
    st.specs += 1;
    let case = |input: &str| json!({"spec": text, "input": input, "part": "denotation"});
    let ld = match LD::from_str(&text) {
        Ok(ld) => ld,
        Err(e) => {
            ctx.violation(
                "c11-denotation-reject",
                &format!("rule `{}` (which denotes the regular expression {}) is rejected: {:?} in\n{}", re_text, canon, e.iter().map(|x| x.to_string()).collect::<Vec<_>>(), text),
                case(""),
            );
            return;
        }
    };
    let cre = match RegexBuilder::new(&format!("\\A(?:{})", canon)).octal(true).multi_line(true).dot_matches_new_line(true).build() {
        Ok(r) => r,
        Err(e) => machinery(&format!("canonical regex {} does not compile: {}", canon, e)),
    };
    let spec = LSpec { states: vec![], rules: vec![LRule { re: canon.clone(), name: Some("T".into()), states: vec![], target: Target::None }], case_insensitive: false, dot_matches_new_line: true, multi_line: true };
    let id = ld.get_rule(0).and_then(|r| r.tok_id());
    for input in inputs {
        st.comparisons += 1;
        let exp = ref_lex(&spec, std::slice::from_ref(&cre), &[id], input);
        let got = real_lex(&ld, input);
        if exp != got {
            ctx.violation(
                "c11-denotation",
                &format!("rule written `{}` denotes {} but on input \"{}\" the built lexer gives {:?} instead of {:?} (re_str = {:?})\n{}", re_text, canon, esc(input), got, exp, ld.get_rule(0).map(|r| r.re_str().to_string()), text),
                case(input),
            );
            return;
        }
    }
}

// ---------------- (b)+(d) structure and spans
struct Rendered {
    text: String,
    /// per rule: byte span of its name (None for skip rules)
    name_spans: Vec<Option<(usize, usize)>>,
    /// per declared state: byte span of its name in the declaration
    state_spans: Vec<(usize, usize)>,
    /// per rule: (line start, line end) byte offsets
    rule_lines: Vec<(usize, usize)>,
}

/// The spellings lex allows for the two kinds of start-state declaration (`%s...` / `%x...`, either case).
const DECL_KEYWORDS: [(&str, &str); 4] = [("%s", "%x"), ("%S", "%X"), ("%start", "%xclusive"), ("%State", "%Xstate")];

fn render(spec: &LSpec, header: Option<&str>, quote: char, trailing_blank: bool, comments: bool, kw: usize) -> Rendered {
    let mut s = String::new();
    if let Some(h) = header {
        s.push_str(h);
        s.push('\n');
    }
    let mut state_spans = vec![];
    for (n, x) in &spec.states {
        if comments {
            s.push_str("// a comment line\n");
        }
        s.push_str(if *x { DECL_KEYWORDS[kw % 4].1 } else { DECL_KEYWORDS[kw % 4].0 });
        s.push(' ');
        state_spans.push((s.len(), s.len() + n.len()));
        s.push_str(n);
        if trailing_blank {
            s.push_str("  ");
        }
        s.push('\n');
    }
    s.push_str("%%\n");
    let mut name_spans = vec![];
    let mut rule_lines = vec![];
    let sname = |id: usize| if id == 0 { "INITIAL".to_string() } else { spec.states[id - 1].0.clone() };
    for r in &spec.rules {
        if comments {
            s.push_str("// another comment\n");
        }
        let ls = s.len();
        if !r.states.is_empty() {
            s.push_str(&format!("<{}>", r.states.iter().map(|i| sname(*i)).collect::<Vec<_>>().join(",")));
        }
        s.push_str(&r.re);
        s.push(' ');
        match &r.target {
            Target::None => {}
            Target::Replace(t) => s.push_str(&format!("<{}>", sname(*t))),
            Target::Push(t) => s.push_str(&format!("<+{}>", sname(*t))),
            Target::Pop(t) => s.push_str(&format!("<-{}>", sname(*t))),
        }
        match &r.name {
            Some(n) => {
                s.push(quote);
                name_spans.push(Some((s.len(), s.len() + n.len())));
                s.push_str(n);
                s.push(quote);
            }
            None => {
                name_spans.push(None);
                s.push(';');
            }
        }
        if trailing_blank {
            s.push_str(" \t");
        }
        rule_lines.push((ls, s.len()));
        s.push('\n');
    }
    Rendered { text: s, name_spans, state_spans, rule_lines }
}

fn check_structure(ctx: &Ctx, spec: &LSpec, r: &Rendered, flags: Option<LexFlags>, st: &mut Stats) {
    ctx.guard(
        &format!("building / querying the lexer of\n{}", r.text),
        || json!({"spec": r.text, "part": "structure"}),
        (),
        || check_structure_inner(ctx, spec, r, flags, st),
    )
}

fn check_structure_inner(ctx: &Ctx, spec: &LSpec, r: &Rendered, flags: Option<LexFlags>, st: &mut Stats) {
    st.specs += 1;
    let case = || json!({"spec": r.text, "part": "structure"});
    let built = match &flags {
        None => LD::from_str(&r.text),
        Some(f) => LD::new_with_options(&r.text, f.clone()),
    };
    let ld = match built {
        Ok(ld) => ld,
        Err(e) => {
            ctx.violation("c11-structure-reject", &format!("specification rejected: {:?}\n{}", e.iter().map(|x| x.to_string()).collect::<Vec<_>>(), r.text), case());
            return;
        }
    };
    // start states
    let ss: Vec<_> = ld.iter_start_states().collect();
    let exp_states: Vec<(String, bool)> = std::iter::once(("INITIAL".to_string(), false)).chain(spec.states.iter().cloned()).collect();
    if ss.len() != exp_states.len() || ss.iter().zip(exp_states.iter()).any(|(a, (n, _))| a.name() != n) {
        ctx.violation("c11-states", &format!("start states {:?} differ from the declared {:?}\n{}", ss.iter().map(|x| x.name().to_string()).collect::<Vec<_>>(), exp_states, r.text), case());
        return;
    }
    for (k, sp) in r.state_spans.iter().enumerate() {
        st.span_checks += 1;
        let got = ss[k + 1].name_span();
        if (got.start(), got.end()) != *sp {
            ctx.violation(
                "c11-state-span",
                &format!("name span of start state {} is {:?} = {:?} but the name is written at {:?}\n{}", spec.states[k].0, got, r.text.get(got.start()..got.end()), sp, r.text),
                case(),
            );
        }
    }
    // exclusivity is only observable through behaviour: an unqualified rule is inactive in an
    // exclusive state; checked by C09 on the same kind of specification
    let rules: Vec<_> = ld.iter_rules().collect();
    if rules.len() != spec.rules.len() {
        ctx.violation("c11-rule-count", &format!("{} rules built from {} written\n{}", rules.len(), spec.rules.len(), r.text), case());
        return;
    }
    let mut seen_ids = std::collections::HashSet::new();
    for (k, (got, exp)) in rules.iter().zip(spec.rules.iter()).enumerate() {
        if got.name() != exp.name.as_deref() {
            ctx.violation("c11-rule-name", &format!("rule {} has name {:?}, written {:?}\n{}", k, got.name(), exp.name, r.text), case());
        }
        if got.start_states() != exp.states.as_slice() {
            ctx.violation("c11-rule-states", &format!("rule {} is restricted to states {:?}, written {:?}\n{}", k, got.start_states(), exp.states, r.text), case());
        }
        let t = match got.target_state() {
            None => Target::None,
            Some((id, StartStateOperation::ReplaceStack)) => Target::Replace(id),
            Some((id, StartStateOperation::Push)) => Target::Push(id),
            Some((id, StartStateOperation::Pop)) => Target::Pop(id),
        };
        if t != exp.target {
            ctx.violation("c11-rule-target", &format!("rule {} has target {:?}, written {:?}\n{}", k, t, exp.target, r.text), case());
        }
        if got.re_str() != exp.re {
            ctx.violation("c11-rule-re", &format!("rule {} has regex text {:?}, written {:?}\n{}", k, got.re_str(), exp.re, r.text), case());
        }
        match got.tok_id() {
            Some(id) => {
                if !seen_ids.insert(id) {
                    ctx.violation("c11-rule-id", &format!("rule {} shares its id {} with an earlier rule\n{}", k, id, r.text), case());
                }
            }
            None => ctx.violation("c11-rule-id", &format!("rule {} has no id\n{}", k, r.text), case()),
        }
        if let Some(sp) = r.name_spans[k] {
            st.span_checks += 1;
            let g = got.name_span();
            if (g.start(), g.end()) != sp {
                ctx.violation(
                    "c11-name-span",
                    &format!("name span of rule {} ('{}') is {:?} = {:?} but the name is written at {:?}\n{}", k, exp.name.as_ref().unwrap(), g, r.text.get(g.start()..g.end()), sp, r.text),
                    case(),
                );
            }
        }
    }
    // the kind (inclusive / exclusive) of a declared start state has no accessor: it shows in which
    // rules are active while the state is current, so every short input is lexed and compared with
    // the reference lexer run on the abstract specification
    let Some(res) = spec.rules.iter().map(|r| RegexBuilder::new(&format!("\\A(?:{})", r.re)).multi_line(true).dot_matches_new_line(true).build().ok()).collect::<Option<Vec<_>>>() else { return };
    let ids: Vec<Option<u32>> = rules.iter().map(|r| r.name().and_then(|_| r.tok_id())).collect();
    for input in BEHAVIOUR_INPUTS.iter() {
        st.comparisons += 1;
        let exp = ref_lex(spec, &res, &ids, input);
        let got = real_lex(&ld, input);
        if exp != got {
            ctx.violation(
                "c11-structure-behaviour",
                &format!("input \"{}\" lexes to {:?} but the specification as written (start states and their kinds, prefixes, targets) gives {:?}\n{}", esc(input), got, exp, r.text),
                case(),
            );
            break;
        }
    }
}

static BEHAVIOUR_INPUTS: std::sync::LazyLock<Vec<String>> = std::sync::LazyLock::new(|| strings(&["a", "b"], 4));

// ---------------- (d) error spans
fn check_error_spans(ctx: &Ctx, header: Option<&str>, st: &mut Stats) {
    // (body lines, index of the offending line, description)
    let bodies: Vec<(Vec<&str>, usize, &str)> = vec![
        (vec!["%%", "a 'A'", "<NOPE>b 'B'"], 2, "unknown start state in a prefix"),
        (vec!["%%", "a 'A'", "b <NOPE>'B'"], 2, "unknown start state in a target"),
        (vec!["%%", "a 'A'", "b 'A'"], 2, "duplicate rule name"),
        (vec!["%%", "a 'A'", "b B"], 2, "invalid name"),
        (vec!["%%", "a 'A'", "b"], 2, "missing space"),
        (vec!["%%", "a 'A'", "(b 'B'"], 2, "regex error"),
        (vec!["%s S", "%s S", "%%", "a 'A'"], 1, "duplicate start state"),
        (vec!["%q S", "%%", "a 'A'"], 0, "unknown declaration"),
        (vec!["%s 1bad", "%%", "a 'A'"], 0, "invalid start state name"),
        (vec!["%%", "a 'A'", " b 'B'"], 2, "verbatim line"),
        (vec!["%%", "a 'A'", "%%", "x"], 2, "routines section"),
    ];
    for (lines, bad, what) in bodies {
        st.error_specs += 1;
        let mut text = String::new();
        if let Some(h) = header {
            text.push_str(h);
            text.push('\n');
            st.with_header += 1;
        }
        let mut line_ranges = vec![];
        for l in &lines {
            line_ranges.push((text.len(), text.len() + l.len()));
            text.push_str(l);
            text.push('\n');
        }
        let case = || json!({"spec": text, "part": "error-span"});
        match LD::from_str(&text) {
            Ok(_) => ctx.violation("c11-error-accepted", &format!("erroneous specification ({}) accepted:\n{}", what, text), case()),
            Err(es) => {
                let (ls, le) = line_ranges[bad];
                // the last span of the last error must lie on the offending line
                let ok = es.iter().any(|e| e.spans().last().map(|sp| sp.start() >= ls && sp.end() <= le + 1).unwrap_or(false));
                st.span_checks += 1;
                if !ok {
                    ctx.violation(
                        "c11-error-span",
                        &format!("{}: the offending line is bytes {}..{} but the errors carry {:?}\n{}", what, ls, le, es.iter().map(|e| (e.to_string(), e.spans().to_vec())).collect::<Vec<_>>(), text),
                        case(),
                    );
                }
            }
        }
    }
}

// ---------------- (c) flags in force
fn check_flags(ctx: &Ctx, st: &mut Stats) {
    // observable effects: case folding, `.` on LF, `^` after LF, `\b` as backspace, comment lines
    let inputs = strings(&["a", "A", "\n", "\u{8}", "b"], 3);
    for mask in 0u32..32 {
        let ci = mask & 1 != 0;
        let dot = mask & 2 == 0;
        let ml = mask & 4 == 0;
        let posix = mask & 8 != 0;
        let comments = mask & 16 != 0;
        let mut fl = vec![];
        fl.push(if ci { "case_insensitive" } else { "!case_insensitive" });
        fl.push(if dot { "dot_matches_new_line" } else { "!dot_matches_new_line" });
        fl.push(if ml { "multi_line" } else { "!multi_line" });
        fl.push(if posix { "posix_escapes" } else { "!posix_escapes" });
        fl.push(if comments { "allow_wholeline_comments" } else { "!allow_wholeline_comments" });
        let rules = [("a", "a", "A1"), ("^b", "^b", "B1"), ("\\b", if posix { "\\x08" } else { "\\b" }, "W1"), (".", ".", "D1")];
        let body = {
            let mut s = String::from("%%\n");
            if comments {
                s.push_str("// comment\n");
            }
            for (r, _, n) in rules {
                s.push_str(&format!("{} '{}'\n", r, n));
            }
            s
        };
        let with_section = format!("%grmtools{{{}}}\n{}", fl.join(", "), body);
        // the opposite section + explicit options: the options must win (new_with_options
        // "ignores any settings in the %grmtools section")
        let opposite: Vec<String> = fl.iter().map(|f| if let Some(x) = f.strip_prefix('!') { x.to_string() } else { format!("!{}", f) }).collect();
        // comment lines only parse if comments are allowed: keep the body valid for both readings
        let body_nc = body.replace("// comment\n", "");
        let with_opposite = format!("%grmtools{{{}}}\n{}", opposite.join(", "), if comments { body.clone() } else { body_nc.clone() });
        let mut lf = lrlex::DEFAULT_LEX_FLAGS;
        lf.case_insensitive = Some(ci);
        lf.dot_matches_new_line = Some(dot);
        lf.multi_line = Some(ml);
        lf.posix_escapes = Some(posix);
        lf.allow_wholeline_comments = Some(comments);
        let res: Vec<regex::Regex> = rules
            .iter()
            .map(|(_, c, _)| RegexBuilder::new(&format!("\\A(?:{})", c)).octal(true).multi_line(ml).dot_matches_new_line(dot).case_insensitive(ci).build().unwrap())
            .collect();
        let spec = LSpec {
            states: vec![],
            rules: rules.iter().map(|(_, c, n)| LRule { re: c.to_string(), name: Some(n.to_string()), states: vec![], target: Target::None }).collect(),
            case_insensitive: ci,
            dot_matches_new_line: dot,
            multi_line: ml,
        };
        for (how, built, text) in [
            ("%grmtools section", LD::from_str(&with_section), &with_section),
            ("new_with_options (section says the opposite)", LD::new_with_options(&with_opposite, lf.clone()), &with_opposite),
        ] {
            st.specs += 1;
            let case = |input: &str| json!({"spec": text, "input": input, "part": "flags", "how": how});
            let ld = match built {
                Ok(ld) => ld,
                Err(e) => {
                    ctx.violation("c11-flags-reject", &format!("flags {:?} via {}: rejected {:?}\n{}", fl, how, e.iter().map(|x| x.to_string()).collect::<Vec<_>>(), text), case(""));
                    continue;
                }
            };
            let ids: Vec<Option<u32>> = (0..rules.len()).map(|i| ld.get_rule(i).and_then(|r| r.tok_id())).collect();
            for input in &inputs {
                st.comparisons += 1;
                let exp = ref_lex(&spec, &res, &ids, input);
                let got = real_lex(&ld, input);
                if exp != got {
                    ctx.violation("c11-flags", &format!("flags {:?} given through {} are not the ones in force: input \"{}\" gives {:?}, expected {:?}\n{}", fl, how, esc(input), got, exp, text), case(input));
                    break;
                }
            }
        }
    }
}

pub fn run(ctx: Ctx) -> i32 {
    if let Some(case) = load_replay(&ctx) {
        // the whole exploration takes under a second: replay = run it again and keep the
        // violations of the stored case (same specification text, part and input)
        ctx.replay_only(&["spec", "part", "input"], &case);
    }
    let max_atoms = if ctx.quick() { 2 } else { 3 };
    let inputs = strings(&DEN_ALPHABET, if ctx.quick() { 3 } else { 4 });
    // (a) all atom sequences x all rendering choices x quoting x prefix x posix
    let mut den: Vec<(Vec<usize>, Vec<usize>)> = vec![];
    let mut seqs: Vec<Vec<usize>> = vec![vec![]];
    for _ in 0..max_atoms {
        let mut next = vec![];
        for s in &seqs {
            for a in 0..ATOMS.len() {
                let mut s2 = s.clone();
                s2.push(a);
                next.push(s2);
            }
        }
        for s in &next {
            if ATOMS[s[0]].not_first {
                continue;
            }
            // all rendering choices
            let mut choices: Vec<Vec<usize>> = vec![vec![]];
            for a in s {
                let mut n2 = vec![];
                for c in &choices {
                    for k in 0..ATOMS[*a].renderings.len() {
                        let mut c2 = c.clone();
                        c2.push(k);
                        n2.push(c2);
                    }
                }
                choices = n2;
            }
            for c in choices {
                den.push((s.clone(), c));
            }
        }
        seqs = next;
    }
    let mut total = den
        .par_iter()
        .map(|(atoms, choice)| {
            let mut st = Stats::default();
            for (quote, prefix, posix, header) in [('\'', false, false, false), ('"', false, false, true), ('\'', true, false, false), ('\'', false, true, true), ('"', true, true, true)] {
                // a rule that ends in an escaped blank needs care with trailing-blank trimming: it
                // is part of the space on purpose
                check_denotation(&ctx, atoms, choice, quote, prefix, posix, header, &inputs, &mut st);
            }
            st
        })
        .reduce(Stats::default, |a, b| a.merge(b));
    // (b)+(d) structure and spans over the start-state specification family
    let mut specs: Vec<LSpec> = vec![];
    let prefixes: Vec<Vec<usize>> = vec![vec![], vec![1], vec![2], vec![1, 2], vec![0]];
    let targets = vec![Target::None, Target::Replace(1), Target::Push(1), Target::Push(2), Target::Pop(1), Target::Pop(2)];
    for p1 in &prefixes {
        for t1 in &targets {
            for n1 in [Some("Nameé"), None] {
                for p2 in &prefixes {
                    for t2 in &targets {
                        specs.push(LSpec {
                            states: vec![("S".into(), false), ("Xy_1".into(), true)],
                            rules: vec![
                                LRule { re: "a+".into(), name: n1.map(|x| x.to_string()), states: p1.clone(), target: t1.clone() },
                                LRule { re: "[b c]".into(), name: Some("B".into()), states: p2.clone(), target: t2.clone() },
                            ],
                            case_insensitive: false,
                            dot_matches_new_line: true,
                            multi_line: true,
                        });
                    }
                }
            }
        }
    }
    let headers: [Option<&str>; 3] = [None, Some("%grmtools{!case_insensitive}"), Some("  %grmtools {\n  allow_wholeline_comments,\n}")];
    total = total.merge(
        specs
            .par_iter()
            .map(|s| {
                let mut st = Stats::default();
                for (hi, h) in headers.iter().enumerate() {
                    for (qi, quote) in ['\'', '"'].into_iter().enumerate() {
                        for (ti, trailing) in [false, true].into_iter().enumerate() {
                            let comments = hi == 2;
                            // every spelling of the declaration keywords occurs among the twelve
                            // renderings of each specification
                            let r = render(s, *h, quote, trailing, comments, hi * 4 + qi * 2 + ti);
                            if h.is_some() {
                                st.with_header += 1;
                            }
                            check_structure(&ctx, s, &r, None, &mut st);
                            if hi == 0 && !trailing {
                                let mut lf = lrlex::DEFAULT_LEX_FLAGS;
                                lf.allow_wholeline_comments = Some(true);
                                let r2 = render(s, None, quote, false, true, qi + 1);
                                check_structure(&ctx, s, &r2, Some(lf), &mut st);
                            }
                        }
                    }
                }
                st
            })
            .reduce(Stats::default, |a, b| a.merge(b)),
    );
    // (c) flags, (d) error spans
    let mut st = Stats::default();
    check_flags(&ctx, &mut st);
    for h in headers {
        check_error_spans(&ctx, h, &mut st);
    }
    total = total.merge(st);
    if total.comparisons == 0 || total.span_checks == 0 || total.with_header == 0 {
        machinery("vacuous exploration (C11)");
    }
    ctx.sample(json!({"part": "denotation", "rule": "\\q\\ <", "denotes": "q <", "inputs": "every string of <= 3 symbols over a 14-symbol alphabet"}));
    ctx.sample(json!({"part": "structure", "spec": render(&specs[777], headers[1], '"', true, false, 1).text}));
    let cov = json!({
        "states": total.specs,
        "transitions": total.comparisons + total.span_checks,
        "traces_validated_against_impl": total.comparisons + total.span_checks,
        "evaluations": total.specs,
        "distinct_nontrivial": total.with_header,
        "rule": "specification text = abstract specification x rendering; non-trivial = renderings with a %grmtools section in front (where offsets into the user's text and offsets into the rest differ)",
        "denotation_rules": den.len(),
        "structure_specs": specs.len(),
        "specifications_built": total.specs,
        "lexing_comparisons": total.comparisons,
        "span_checks": total.span_checks,
        "erroneous_specifications": total.error_specs,
    });
    ctx.finish(cov, &["the denotation of each atom is written down in the regex crate's own syntax (a backslash before a character special neither to lex nor to the regex engine stands for the character)", "an error span must lie on the line of the offending construct"], true)
}

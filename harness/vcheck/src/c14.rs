//! C14 — serialised grammars and tables come back observationally identical.
//!
//! Every specification of the C10 space (all optional declarations, non-ASCII names and actions,
//! all yacc kinds) plus wide grammars whose bit vectors are 1, 63, 64, 65 and 129 bits long, built
//! with u8 / u16 / u32 storage, serialised in both integer encodings exactly as the compile-time
//! builder does and reconstituted through `lrpar::ctbuilder::_reconstitute` exactly as generated
//! code does; the complete public query dump and every parse of every short input must be equal.

use crate::c10::{FEATURES, Kind, Layout, Quote, mk_spec, render};
use crate::common::*;
use cfgrammar::yacc::{YaccGrammar, YaccKind};
use cfgrammar::TIdx;
use lrlex::{DefaultLexeme, DefaultLexerTypes, LRNonStreamingLexer};
use lrpar::{Lexeme, RTParserBuilder, RecoveryKind};
use lrtable::{Minimiser, StateTable, from_yacc};
use rayon::prelude::*;
use serde_json::json;
use std::panic::{AssertUnwindSafe, catch_unwind};
use vcore::dump::{dump_grammar, dump_table};
use vcore::gram::{RefGrammar, Sym, Universe, all_inputs, family_seeds};
use vcore::report::{Ctx, panic_msg};

#[derive(Default, Clone)]
struct Stats {
    specs: u64,
    roundtrips: u64,
    parses: u64,
    refused: u64,
    dump_lines: u64,
    with_conflicts: u64,
}
impl Stats {
    fn merge(mut self, o: Stats) -> Stats {
        self.specs += o.specs;
        self.roundtrips += o.roundtrips;
        self.parses += o.parses;
        self.refused += o.refused;
        self.dump_lines += o.dump_lines;
        self.with_conflicts += o.with_conflicts;
        self
    }
}

macro_rules! parse_all {
    ($T:ty, $grm:expr, $st:expr, $inputs:expr, $nstates:expr) => {{
        let grm: &YaccGrammar<$T> = $grm;
        let st: &StateTable<$T> = $st;
        let drv = vcore::real::Drv::from_parts(grm, st, $nstates, 6);
        let names: Vec<Option<TIdx<$T>>> = (0..usize::from(grm.tokens_len())).map(|t| Some(TIdx(t as $T))).collect();
        let user_toks: Vec<TIdx<$T>> = names.iter().flatten().cloned().filter(|t| *t != grm.eof_token_idx()).collect();
        let mut out = String::new();
        for w in $inputs {
            if w.iter().any(|t| *t >= user_toks.len()) {
                continue;
            }
            // the plain LR loop does not return on some conflict-resolved tables (C07-a)
            if !drv.terminates(&w.iter().map(|t| user_toks[*t]).collect::<Vec<_>>()) {
                continue;
            }
            let mut text = String::new();
            let mut lexemes = vec![];
            for t in w.iter() {
                let start = text.len();
                text.push('x');
                lexemes.push(Ok(DefaultLexeme::<$T>::new(user_toks[*t].as_storaget(), start, 1)));
            }
            let lexer: LRNonStreamingLexer<DefaultLexerTypes<$T>> = LRNonStreamingLexer::new(&text, lexemes, cfgrammar::NewlineCache::new());
            let pb = RTParserBuilder::new(grm, st).recoverer(RecoveryKind::None);
            let (tree, errs) = pb.parse_map(&lexer, &|l| format!("{}", usize::from(TIdx(l.tok_id()))), &|r, ks: Vec<String>| format!("R{}({})", usize::from(r), ks.join(" ")));
            out.push_str(&format!("{:?} -> {:?} {:?}\n", w, tree, errs.iter().map(|e| format!("{}", e)).collect::<Vec<_>>()));
        }
        out
    }};
}

macro_rules! roundtrip {
    ($T:ty, $ctx:expr, $text:expr, $yk:expr, $inputs:expr, $st:expr, $what:expr) => {{
        let text: &str = $text;
        let built = catch_unwind(AssertUnwindSafe(|| {
            let grm = YaccGrammar::<$T>::new_with_storaget($yk, text).ok()?;
            let (sg, st) = from_yacc(&grm, Minimiser::Pager).ok()?;
            Some((grm, sg, st))
        }));
        match built {
            Err(_) | Ok(None) => {
                // refused in this width (C20's subject) or not a valid grammar
                $st.refused += 1;
            }
            Ok(Some((grm, sg, st))) => {
                let n = usize::from(sg.all_states_len());
                let d1 = format!("{}{}", dump_grammar(&grm), dump_table(&grm, &st, n, false));
                if st.conflicts().is_some() {
                    $st.with_conflicts += 1;
                }
                let p1 = parse_all!($T, &grm, &st, $inputs, n);
                for fmt in ["fixed", "var"] {
                    let r = catch_unwind(AssertUnwindSafe(|| {
                        if fmt == "fixed" {
                            let config = wincode::config::Configuration::default().with_fixint_encoding();
                            let g = wincode::config::serialize(&grm, config).map_err(|e| format!("{:?}", e))?;
                            let s = wincode::config::serialize(&st, config).map_err(|e| format!("{:?}", e))?;
                            Ok::<_, String>(lrpar::ctbuilder::_reconstitute::<_, $T>(&g, &s, config))
                        } else {
                            let config = wincode::config::Configuration::default().with_varint_encoding();
                            let g = wincode::config::serialize(&grm, config).map_err(|e| format!("{:?}", e))?;
                            let s = wincode::config::serialize(&st, config).map_err(|e| format!("{:?}", e))?;
                            Ok::<_, String>(lrpar::ctbuilder::_reconstitute::<_, $T>(&g, &s, config))
                        }
                    }));
                    $st.roundtrips += 1;
                    let case = || json!({"text": text, "width": stringify!($T), "format": fmt, "what": $what});
                    match r {
                        Err(p) => $ctx.violation("c14-panic", &format!("serialise / reconstitute ({}, {}) panicked: {}\n{}", stringify!($T), fmt, panic_msg(&p), text), case()),
                        Ok(Err(e)) => $ctx.violation("c14-serialise", &format!("serialisation ({}, {}) failed: {}\n{}", stringify!($T), fmt, e, text), case()),
                        Ok(Ok(pd)) => {
                            let d2 = format!("{}{}", dump_grammar(pd.grm()), dump_table(pd.grm(), pd.stable(), n, false));
                            $st.dump_lines += d1.lines().count() as u64;
                            if d1 != d2 {
                                let diff = d1.lines().zip(d2.lines()).find(|(a, b)| a != b);
                                $ctx.violation(
                                    "c14-dump",
                                    &format!("after the round trip ({}, {}) a public query answers differently: {:?}\n{}", stringify!($T), fmt, diff, text),
                                    case(),
                                );
                            } else {
                                let p2 = parse_all!($T, pd.grm(), pd.stable(), $inputs, n);
                                $st.parses += p2.lines().count() as u64;
                                if p1 != p2 {
                                    let diff = p1.lines().zip(p2.lines()).find(|(a, b)| a != b);
                                    $ctx.violation("c14-parse", &format!("after the round trip ({}, {}) an input parses differently: {:?}\n{}", stringify!($T), fmt, diff, text), case());
                                }
                            }
                        }
                    }
                }
            }
        }
    }};
}

fn wide_grammar(ntoks: usize) -> String {
    // one rule, many tokens: token count chosen so that the per-state bit vectors have the wanted
    // length; with declarations spread over the tokens so that the per-token tables (precedence
    // levels up to the token count, %epp, %avoid_insert bits) are as wide as the token set
    let mut s = String::from("%start S\n");
    let mut ai = String::from("%avoid_insert");
    for t in 0..ntoks {
        if t % 3 == 0 {
            ai.push_str(&format!(" 'k{}'", t));
        }
        if t % 5 == 1 {
            s.push_str(&format!("%epp 'k{}' \"token {}\"\n", t, t));
        }
        let kw = ["%left", "%right", "%nonassoc"][t % 3];
        s.push_str(&format!("{} 'k{}'\n", kw, t));
    }
    s.push_str(&ai);
    s.push_str("\n%%\nS:");
    for t in 0..ntoks {
        if t > 0 {
            s.push_str(" |");
        }
        s.push_str(&format!(" 'k{}'", t));
        if t % 2 == 1 {
            s.push_str(&format!(" S 'k{}'", t - 1));
        }
    }
    s.push_str(";\n");
    s
}

pub fn check_text(ctx: &Ctx, text: &str, yk: YaccKind, inputs: &[Vec<usize>], st: &mut Stats, what: &str) {
    st.specs += 1;
    roundtrip!(u8, ctx, text, yk, inputs, st, what);
    roundtrip!(u16, ctx, text, yk, inputs, st, what);
    roundtrip!(u32, ctx, text, yk, inputs, st, what);
}

pub fn spec_texts(quick: bool) -> Vec<(String, YaccKind, String)> {
    let mut bases: Vec<RefGrammar> = if quick { Universe::new(2, 2, 2, 2, 3).enumerate() } else { Universe::new(2, 2, 2, 2, 4).enumerate() };
    bases.retain(|g| vcore::refs::analyse(g).all_reachable());
    bases.extend(family_seeds().into_iter().filter(|g| g.ntoks <= 5));
    let mut featsets: Vec<Vec<&'static str>> = vec![vec![], FEATURES.to_vec()];
    for f in FEATURES {
        featsets.push(vec![f]);
    }
    let lay = Layout { quote: Quote::Single, gap: 0, reversed: false, percent_empty: false, header: false, reopen: false };
    let mut out = vec![];
    for b in &bases {
        for f in &featsets {
            for k in [Kind::NoAction, Kind::Gpt, Kind::UserAction, Kind::Grmtools, Kind::Eco] {
                if let Some(spec) = mk_spec(b, k, f) {
                    if let Some(r) = render(&spec, &lay) {
                        out.push((r.text, k.yk(), format!("{:?} {:?}", k, f)));
                    }
                }
            }
        }
    }
    let _ = Sym::T(0);
    out
}

pub fn run(ctx: Ctx) -> i32 {
    if let Some(case) = load_replay(&ctx) {
        // the quick exploration takes a few seconds: replay = run it again and keep the violations
        // of the stored case (same text, storage width and integer encoding)
        ctx.replay_only(&["text", "width", "format"], &case);
    }
    let texts = spec_texts(ctx.quick());
    let inputs = all_inputs(3, if ctx.quick() { 3 } else { 6 });
    let mut total = texts
        .par_iter()
        .map(|(t, yk, what)| {
            let mut st = Stats::default();
            check_text(&ctx, t, *yk, &inputs, &mut st, what);
            st
        })
        .reduce(Stats::default, |a, b| a.merge(b));
    // F-wide
    let mut st = Stats::default();
    for ntoks in [1usize, 2, 30, 31, 32, 33, 62, 63, 64, 65, 127, 128, 129, 130, 200, 253, 254, 255, 256, 257, 300] {
        let t = wide_grammar(ntoks);
        check_text(&ctx, &t, vcore::real::YK, &all_inputs(ntoks.min(3), 3), &mut st, &format!("wide {}", ntoks));
    }
    total = total.merge(st);
    if total.roundtrips == 0 || total.with_conflicts == 0 || total.parses == 0 {
        machinery("vacuous exploration (C14)");
    }
    ctx.sample(json!({"text": texts[texts.len() / 2].0, "widths": ["u8", "u16", "u32"], "formats": ["fixed", "var"]}));
    ctx.sample(json!({"text": wide_grammar(4), "note": "wide family: 1..254 tokens"}));
    let cov = json!({
        "states": total.specs,
        "transitions": total.dump_lines,
        "traces_validated_against_impl": total.roundtrips,
        "evaluations": total.roundtrips,
        "distinct_nontrivial": total.with_conflicts,
        "rule": "(specification, storage width, integer encoding) -> serialise + reconstitute + complete query dump + all short parses; non-trivial = tables that carry conflict lists",
        "specifications": total.specs,
        "roundtrips": total.roundtrips,
        "query_dump_lines_compared": total.dump_lines,
        "parses_compared": total.parses,
        "width_refusals_or_invalid": total.refused,
    });
    ctx.finish(cov, &["serialisation calls are exactly those of lrpar's compile-time builder; reconstitution is lrpar::ctbuilder::_reconstitute as called by generated code", "the number of states is taken from the state graph of the original (the table does not expose it)"], true)
}

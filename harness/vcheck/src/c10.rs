//! C10 — a grammar object is a faithful, well-formed image of its `.y` source.
//!
//! Abstract specifications (grammar x optional declarations switched on one at a time and
//! pairwise x yacc kind) x concrete renderings (quoting style, gap style incl. both comment
//! forms, declaration order, `%empty`, `%grmtools` header). Every accessor of the resulting
//! YaccGrammar is compared with the abstract specification, every span must slice the text that
//! defines the thing, and all renderings of one abstract specification must give the same digest.

use crate::common::*;
use cfgrammar::yacc::{AssocKind, YaccGrammar, YaccKind, YaccOriginalActionKind};
use cfgrammar::{PIdx, RIdx, Symbol, TIdx};
use rayon::prelude::*;
use serde_json::json;
use std::str::FromStr;
use vcore::gram::{Assoc, RefGrammar, Sym, Universe, family_seeds};
use vcore::report::Ctx;

#[derive(Clone, Copy, PartialEq, Eq, Debug)]
pub enum Kind {
    NoAction,
    Gpt,
    UserAction,
    Grmtools,
    Eco,
}

impl Kind {
    pub fn yk(&self) -> YaccKind {
        match self {
            Kind::NoAction => YaccKind::Original(YaccOriginalActionKind::NoAction),
            Kind::Gpt => YaccKind::Original(YaccOriginalActionKind::GenericParseTree),
            Kind::UserAction => YaccKind::Original(YaccOriginalActionKind::UserAction),
            Kind::Grmtools => YaccKind::Grmtools,
            Kind::Eco => YaccKind::Eco,
        }
    }
    fn header(&self) -> &'static str {
        match self {
            Kind::NoAction => "%grmtools{yacckind: Original(NoAction)}",
            Kind::Gpt => "%grmtools{yacckind: Original(YaccOriginalActionKind::GenericParseTree)}",
            Kind::UserAction => "%grmtools {\n  yacckind: Original(UserAction),\n}",
            Kind::Grmtools => "%grmtools{yacckind: Grmtools}",
            Kind::Eco => "%grmtools{yacckind: YaccKind::Eco}",
        }
    }
}

#[derive(Clone, Debug)]
pub struct YSpec {
    /// the grammar `mk_spec` was given (replay files store it)
    pub base: RefGrammar,
    pub g: RefGrammar,
    pub kind: Kind,
    token_decl: bool,
    explicit_start: bool,
    epp: bool,
    expect: Option<usize>,
    expectrr: Option<usize>,
    unused_rule: bool,
    parse_param: bool,
    parse_generics: bool,
    actions: bool,
    implicit_tokens: Vec<&'static str>,
    programs: bool,
    features: Vec<&'static str>,
}

pub const FEATURES: [&str; 12] = ["token_decl", "explicit_start", "precs", "prec_override", "epp", "avoid_insert", "expect", "expectrr", "unused_rule", "parse_param", "parse_generics", "programs"];

pub fn mk_spec(base: &RefGrammar, kind: Kind, feats: &[&'static str]) -> Option<YSpec> {
    let mut g = base.clone();
    let has = |f: &str| feats.contains(&f);
    // non-ASCII and punctuation token names keep the quoting paths honest
    let mut tn: Vec<String> = (0..g.ntoks).map(|t| format!("t{}", t)).collect();
    if g.ntoks > 0 && !has("token_decl") {
        tn[0] = "+é".to_string();
    }
    g.tok_names = Some(tn);
    if has("precs") || has("prec_override") {
        if g.ntoks == 0 {
            return None;
        }
        g.precs = vec![(Assoc::Right, vec![0])];
        if g.ntoks > 1 {
            g.precs.push((Assoc::Nonassoc, vec![1]));
        }
        if has("precs") && g.ntoks > 2 {
            g.precs[0].1.push(2);
        }
    }
    if has("prec_override") {
        let (r, i) = *g.flat_prods().last().unwrap();
        g.prod_prec = vec![(r, i, 0)];
    }
    if has("avoid_insert") {
        if g.ntoks == 0 {
            return None;
        }
        g.avoid_insert = vec![g.ntoks - 1];
    }
    if (has("epp") || has("token_decl")) && g.ntoks == 0 {
        return None;
    }
    Some(YSpec {
        base: base.clone(),
        g,
        kind,
        token_decl: has("token_decl"),
        explicit_start: has("explicit_start"),
        epp: has("epp"),
        expect: if has("expect") { Some(1) } else { None },
        expectrr: if has("expectrr") { Some(20) } else { None },
        unused_rule: has("unused_rule"),
        parse_param: has("parse_param"),
        parse_generics: has("parse_generics"),
        actions: matches!(kind, Kind::UserAction | Kind::Grmtools),
        implicit_tokens: if kind == Kind::Eco { vec!["ws1", "ws2"] } else { vec![] },
        programs: has("programs"),
        features: feats.to_vec(),
    })
}

#[derive(Clone, Copy, Debug, PartialEq, Eq)]
pub enum Quote {
    Single,
    Double,
    Bare,
}
#[derive(Clone, Copy, Debug, PartialEq, Eq)]
pub struct Layout {
    pub quote: Quote,
    pub gap: usize,
    pub reversed: bool,
    pub percent_empty: bool,
    pub header: bool,
    /// every rule with >= 2 productions is written in two pieces (`A: p1; ...; A: p2 | p3;`)
    pub reopen: bool,
}

const GAPS: [&str; 9] = [" ", "\n", "\t ", " // comment 'x' { |\n", " /* c: ; | */ ", " /* first line\n// second line */ ", " /** doc **/ ", "/**/", " /* a * b / c ***/ "];

const EPP_VALUE: &str = "the \"plus\" 'sign'";

fn action_text(r: usize, i: usize) -> String {
    format!("{{ let é = {{ {} }}; f({}, \"x\") }}", r, i)
}
fn action_expected(r: usize, i: usize) -> String {
    let a = action_text(r, i);
    a[1..a.len() - 1].trim().to_string()
}
fn rule_type(r: usize) -> String {
    format!("Result<Vec<T{}>, ()>", r)
}

pub struct Rendered {
    pub text: String,
}

pub fn render(s: &YSpec, l: &Layout) -> Option<Rendered> {
    let g = &s.g;
    if l.quote == Quote::Bare && !s.token_decl {
        return None;
    }
    let gap = GAPS[l.gap];
    // a separator that never contains a newline (for lists that end at the end of the line)
    let hgap = if gap.contains('\n') { " " } else { gap };
    let tok = |t: usize| -> String {
        let n = g.tok_name(t);
        match l.quote {
            Quote::Single => format!("'{}'", n),
            Quote::Double => format!("\"{}\"", n),
            Quote::Bare => n,
        }
    };
    let mut decls: Vec<String> = vec![];
    if s.token_decl {
        let mut d = String::from("%token");
        for t in 0..g.ntoks {
            // the first item must be on the declaration's own line
            d.push_str(if t == 0 { hgap } else { gap });
            d.push_str(&g.tok_name(t));
        }
        decls.push(d);
    }
    if s.explicit_start {
        decls.push(format!("%start{}{}", hgap, g.rule_name(0)));
    }
    // precedence lines keep their relative order (it defines the levels)
    let mut prec_block = vec![];
    for (a, ts) in &g.precs {
        let mut d = String::from(match a {
            Assoc::Left => "%left",
            Assoc::Right => "%right",
            Assoc::Nonassoc => "%nonassoc",
        });
        for t in ts {
            d.push_str(hgap);
            d.push_str(&tok(*t));
        }
        prec_block.push(d);
    }
    if !prec_block.is_empty() {
        decls.push(prec_block.join("\n"));
    }
    if s.epp {
        let q = if l.quote == Quote::Double { '\'' } else { '"' };
        // the delimiter must be escaped; the other kind of quote may be (reversed layouts do)
        let v = if q == '"' { EPP_VALUE.replace('"', "\\\"") } else { EPP_VALUE.replace('\'', "\\'") };
        let v = if l.reversed { if q == '"' { v.replace('\'', "\\'") } else { v.replace('"', "\\\"") } } else { v };
        decls.push(format!("%epp{}{}{}{}{}{}", hgap, tok(0), hgap, q, v, q));
    }
    if !g.avoid_insert.is_empty() {
        let mut d = String::from("%avoid_insert");
        for t in &g.avoid_insert {
            d.push_str(hgap);
            d.push_str(&tok(*t));
        }
        decls.push(d);
    }
    if let Some(n) = s.expect {
        decls.push(format!("%expect{}{}", hgap, n));
    }
    if let Some(n) = s.expectrr {
        decls.push(format!("%expect-rr{}{}", hgap, n));
    }
    if s.unused_rule {
        decls.push(format!("%expect-unused{}Unused", hgap));
    }
    if s.parse_param {
        decls.push("%parse-param p: &'a mut Vec<(u8, é)>".to_string());
    }
    if s.parse_generics {
        decls.push("%parse-generics 'a, T: Clone".to_string());
    }
    if s.kind == Kind::UserAction {
        decls.push("%actiontype Result<Vec<T>, ()>".to_string());
    }
    if !s.implicit_tokens.is_empty() {
        decls.push(format!("%implicit_tokens {}", s.implicit_tokens.join(hgap)));
    }
    if l.reversed {
        decls.reverse();
    }
    let mut text = String::new();
    if l.header {
        text.push_str(s.kind.header());
        text.push('\n');
    }
    for d in &decls {
        text.push_str(d);
        text.push('\n');
        if gap.contains("//") || gap.contains("/*") {
            text.push_str(gap.trim_start());
            text.push('\n');
        }
    }
    text.push_str("%%");
    text.push_str(gap);
    let nrules = g.nrules() + if s.unused_rule { 1 } else { 0 };
    // (rule, first production, one past the last) in the order the pieces are written
    let mut pieces: Vec<(usize, usize, usize)> = vec![];
    for r in 0..nrules {
        let np = if r < g.nrules() { g.rules[r].len() } else { 1 };
        pieces.push((r, 0, if l.reopen && np >= 2 { 1 } else { np }));
    }
    if l.reopen {
        if !(0..g.nrules()).any(|r| g.rules[r].len() >= 2) {
            return None;
        }
        for r in 0..g.nrules() {
            if g.rules[r].len() >= 2 {
                pieces.push((r, 1, g.rules[r].len()));
            }
        }
    }
    for (r, from, to) in pieces {
        let (name, prods): (String, Vec<Vec<Sym>>) = if r < g.nrules() { (g.rule_name(r), g.rules[r][from..to].to_vec()) } else { ("Unused".to_string(), vec![vec![]]) };
        text.push_str(&name);
        if s.kind == Kind::Grmtools {
            text.push_str(gap);
            text.push_str("->");
            text.push_str(gap);
            // the second piece of a re-opened rule spells the same type differently
            text.push_str(&if from > 0 { rule_type(r).replace(", ", " ,  ") } else { rule_type(r) });
        }
        text.push_str(if gap.contains('\n') || s.kind == Kind::Grmtools { "" } else { gap });
        text.push(':');
        for (i0, p) in prods.iter().enumerate() {
            let i = i0 + from;
            if i0 > 0 {
                text.push_str(gap);
                text.push('|');
            }
            if p.is_empty() && l.percent_empty {
                text.push_str(gap);
                text.push_str("%empty");
            }
            for sym in p {
                text.push_str(gap);
                match sym {
                    Sym::R(x) => text.push_str(&g.rule_name(*x)),
                    Sym::T(t) => text.push_str(&tok(*t)),
                }
            }
            if r < g.nrules() {
                for &(pr, pi, t) in &g.prod_prec {
                    if pr == r && pi == i {
                        text.push_str(gap);
                        text.push_str("%prec");
                        text.push_str(gap);
                        text.push_str(&tok(t));
                    }
                }
            }
            if s.actions {
                text.push_str(gap);
                text.push_str(&action_text(r, i));
            }
        }
        text.push_str(gap);
        text.push(';');
        text.push_str(gap);
    }
    if s.programs {
        text.push_str("%%\nfn helper() -> u8 { b'}' }\n// é\n");
    }
    Some(Rendered { text })
}

fn strip_layout(s: &str) -> String {
    // remove // and /* */ comments and all whitespace
    let mut out = String::new();
    let b: Vec<char> = s.chars().collect();
    let mut i = 0;
    while i < b.len() {
        if b[i] == '/' && i + 1 < b.len() && b[i + 1] == '/' {
            while i < b.len() && b[i] != '\n' {
                i += 1;
            }
        } else if b[i] == '/' && i + 1 < b.len() && b[i + 1] == '*' {
            i += 2;
            while i + 1 < b.len() && !(b[i] == '*' && b[i + 1] == '/') {
                i += 1;
            }
            i += 2;
        } else {
            if !b[i].is_whitespace() {
                out.push(b[i]);
            }
            i += 1;
        }
    }
    out
}

/// Compare the grammar built from `text` with the abstract specification; returns the digest
/// (everything but spans) or None when something was reported.
/// Everything needed to rebuild the abstract specification and its rendering.
fn replay_case(s: &YSpec, l: &Layout, text: &str) -> serde_json::Value {
    json!({
        "text": text,
        "base": s.base.to_json(),
        "kind": format!("{:?}", s.kind),
        "features": s.features,
        "layout": {"quote": format!("{:?}", l.quote), "gap": l.gap, "reversed": l.reversed, "percent_empty": l.percent_empty, "header": l.header, "reopen": l.reopen},
    })
}

fn spec_from_replay(case: &serde_json::Value) -> Option<(YSpec, Layout)> {
    let base = RefGrammar::from_json(&case["base"])?;
    let kind = match case["kind"].as_str()? {
        "NoAction" => Kind::NoAction,
        "Gpt" => Kind::Gpt,
        "UserAction" => Kind::UserAction,
        "Grmtools" => Kind::Grmtools,
        _ => Kind::Eco,
    };
    let feats: Vec<&'static str> = case["features"].as_array()?.iter().filter_map(|f| FEATURES.iter().find(|x| Some(**x) == f.as_str()).copied()).collect();
    let l = &case["layout"];
    let layout = Layout {
        quote: match l["quote"].as_str()? {
            "Single" => Quote::Single,
            "Double" => Quote::Double,
            _ => Quote::Bare,
        },
        gap: l["gap"].as_u64()? as usize,
        reversed: l["reversed"].as_bool()?,
        percent_empty: l["percent_empty"].as_bool()?,
        header: l["header"].as_bool()?,
        reopen: l["reopen"].as_bool().unwrap_or(false),
    };
    Some((mk_spec(&base, kind, &feats)?, layout))
}

fn check_one(ctx: &Ctx, s: &YSpec, l: &Layout, text: &str, st: &mut Stats) -> Option<String> {
    ctx.guard(&format!("building / querying the grammar of\n{}", text), || replay_case(s, l, text), None, || check_one_inner(ctx, s, l, text, st))
}

fn check_one_inner(ctx: &Ctx, s: &YSpec, l: &Layout, text: &str, st: &mut Stats) -> Option<String> {
    let g = &s.g;
    let case = || replay_case(s, l, text);
    let built = if l.header { YaccGrammar::<u32>::from_str(text) } else { YaccGrammar::<u32>::new_with_storaget(s.kind.yk(), text) };
    let grm = match built {
        Ok(x) => x,
        Err(e) => {
            ctx.violation("c10-reject", &format!("specification rejected: {:?}\n{}", e.iter().map(|x| x.to_string()).collect::<Vec<_>>(), text), case());
            return None;
        }
    };
    st.built += 1;
    let mut bad = |key: &str, msg: String| {
        ctx.violation(key, &format!("{}\n--- kind {:?}, features {:?}, layout {:?}\n{}", msg, s.kind, s.features, l, text), case());
    };
    let mut digest = String::new();
    // ---- rules
    let nuser = g.nrules() + if s.unused_rule { 1 } else { 0 };
    let eco_extra = if s.kind == Kind::Eco && !s.implicit_tokens.is_empty() { 2 } else { 0 };
    let nrules = usize::from(grm.rules_len());
    if nrules != 1 + eco_extra + nuser {
        bad("c10-rules-len", format!("rules_len = {} but the source has {} rules (+1 start rule, +{} implicit)", nrules, nuser, eco_extra));
        return None;
    }
    let user_name = |r: usize| if r < g.nrules() { g.rule_name(r) } else { "Unused".to_string() };
    // the user's rules keep their source order (where the added rules sit is not prescribed)
    let mut user_ridx: Vec<RIdx<u32>> = vec![];
    for r in 0..nuser {
        let Some(ridx) = grm.rule_idx(&user_name(r)) else {
            bad("c10-rule-missing", format!("rule '{}' of the source is not in the grammar", user_name(r)));
            return None;
        };
        if usize::from(ridx) >= nrules || grm.rule_name_str(ridx) != user_name(r) || user_ridx.last().map(|p| usize::from(*p) >= usize::from(ridx)).unwrap_or(false) {
            bad("c10-rule-order", format!("rule '{}' (the {}th of the source) has index {}: the rules do not keep their source order", user_name(r), r, usize::from(ridx)));
            return None;
        }
        user_ridx.push(ridx);
        let sp = grm.rule_name_span(ridx);
        st.spans += 1;
        if text.get(sp.start()..sp.end()) != Some(user_name(r).as_str()) {
            bad("c10-rule-span", format!("name span of rule '{}' is {:?} = {:?}", user_name(r), sp, text.get(sp.start()..sp.end())));
        }
    }
    // ---- tokens
    let ntok = usize::from(grm.tokens_len());
    let mut exp_tokens: Vec<String> = (0..g.ntoks).map(|t| g.tok_name(t)).collect();
    for it in &s.implicit_tokens {
        exp_tokens.push(it.to_string());
    }
    let mut got_tokens = vec![];
    let mut eofs = 0;
    for t in 0..ntok {
        let tidx = TIdx(t as u32);
        match grm.token_name(tidx) {
            None => {
                eofs += 1;
                if tidx != grm.eof_token_idx() {
                    bad("c10-eof", format!("token {} is unnamed but eof_token_idx is {}", t, usize::from(grm.eof_token_idx())));
                }
                if grm.token_span(tidx).is_some() || grm.token_epp(tidx).is_some() || grm.token_precedence(tidx).is_some() {
                    bad("c10-eof", "the end-of-input token has a span / epp / precedence".to_string());
                }
            }
            Some(n) => {
                got_tokens.push(n.to_string());
                if grm.token_idx(n) != Some(tidx) {
                    bad("c10-token-idx", format!("token_idx('{}') != {}", n, t));
                }
                let sp = grm.token_span(tidx);
                st.spans += 1;
                if sp.and_then(|sp| text.get(sp.start()..sp.end())) != Some(n) {
                    bad("c10-token-span", format!("span of token '{}' is {:?} = {:?}", n, sp, sp.and_then(|sp| text.get(sp.start()..sp.end()))));
                }
            }
        }
    }
    let mut a = got_tokens.clone();
    a.sort();
    let mut b = exp_tokens.clone();
    b.sort();
    if a != b || eofs != 1 {
        bad("c10-token-set", format!("tokens {:?} (+{} unnamed) but the source has {:?}", got_tokens, eofs, exp_tokens));
        return None;
    }
    let tname = |t: usize| g.tok_name(t);
    // per-token declarations
    let mut levels: Vec<u64> = vec![];
    for t in 0..g.ntoks {
        let tidx = grm.token_idx(&tname(t)).unwrap();
        let got = grm.token_precedence(tidx);
        let exp = g.tok_prec(t);
        let kind_of = |a: Assoc| match a {
            Assoc::Left => AssocKind::Left,
            Assoc::Right => AssocKind::Right,
            Assoc::Nonassoc => AssocKind::Nonassoc,
        };
        match (got, exp) {
            (None, None) => {}
            (Some(p), Some((_, a))) if p.kind == kind_of(a) => levels.push(p.level),
            _ => bad("c10-token-prec", format!("precedence of '{}' is {:?}, declared {:?}", tname(t), got, exp)),
        }
        let exp_epp = if s.epp && t == 0 { EPP_VALUE.to_string() } else { tname(t) };
        if grm.token_epp(tidx) != Some(exp_epp.as_str()) {
            bad("c10-epp", format!("%epp of '{}' is {:?}, expected {:?}", tname(t), grm.token_epp(tidx), exp_epp));
        }
        if grm.avoid_insert(tidx) != g.avoid_insert.contains(&t) {
            bad("c10-avoid-insert", format!("avoid_insert('{}') = {}", tname(t), grm.avoid_insert(tidx)));
        }
        digest.push_str(&format!("tok {} prec {:?} epp {:?} ai {};", tname(t), got.map(|p| p.kind), grm.token_epp(tidx), grm.avoid_insert(tidx)));
    }
    // relative order of levels = order of declaration lines
    for t1 in 0..g.ntoks {
        for t2 in 0..g.ntoks {
            if let (Some((l1, _)), Some((l2, _))) = (g.tok_prec(t1), g.tok_prec(t2)) {
                let p1 = grm.token_precedence(grm.token_idx(&tname(t1)).unwrap());
                let p2 = grm.token_precedence(grm.token_idx(&tname(t2)).unwrap());
                if let (Some(p1), Some(p2)) = (p1, p2) {
                    if l1.cmp(&l2) != p1.level.cmp(&p2.level) {
                        bad("c10-prec-level", format!("levels of '{}' and '{}' are {} and {} but they are declared on lines {} and {}", tname(t1), tname(t2), p1.level, p2.level, l1, l2));
                    }
                }
            }
        }
    }
    // ---- productions
    let nprods_user: usize = g.nprods() + if s.unused_rule { 1 } else { 0 };
    let nprods = usize::from(grm.prods_len());
    let implicit_prods = if eco_extra > 0 { 1 + s.implicit_tokens.len() + 1 } else { 0 };
    if nprods != nprods_user + 1 + implicit_prods {
        bad("c10-prods-len", format!("prods_len = {} but the source has {} productions (+1 start, +{} implicit)", nprods, nprods_user, implicit_prods));
        return None;
    }
    let sym_name = |sy: &Symbol<u32>| match sy {
        Symbol::Rule(r) => format!("R:{}", grm.rule_name_str(*r)),
        Symbol::Token(t) => format!("T:{}", grm.token_name(*t).unwrap_or("$")),
    };
    for r in 0..nuser {
        let ridx = user_ridx[r];
        let prods: Vec<Vec<Sym>> = if r < g.nrules() { g.rules[r].clone() } else { vec![vec![]] };
        let pidxs = grm.rule_to_prods(ridx);
        if pidxs.len() != prods.len() {
            bad("c10-rule-prods", format!("rule '{}' has {} productions, the source {}", user_name(r), pidxs.len(), prods.len()));
            return None;
        }
        for (i, p) in prods.iter().enumerate() {
            let pidx = pidxs[i];
            if usize::from(pidx) >= nprods || grm.prod_to_rule(pidx) != ridx {
                bad("c10-prod-idx", format!("production index {} of rule '{}' out of range or owned by another rule", usize::from(pidx), user_name(r)));
                return None;
            }
            let mut exp: Vec<String> = vec![];
            for sy in p {
                match sy {
                    Sym::R(x) => exp.push(format!("R:{}", g.rule_name(*x))),
                    Sym::T(t) => {
                        exp.push(format!("T:{}", tname(*t)));
                        if eco_extra > 0 {
                            exp.push("R:~".to_string());
                        }
                    }
                }
            }
            let got: Vec<String> = grm.prod(pidx).iter().map(|x| sym_name(x)).collect();
            if got != exp || usize::from(grm.prod_len(pidx)) != exp.len() {
                bad("c10-prod-syms", format!("production {} of '{}' is {:?}, the source says {:?}", i, user_name(r), got, exp));
            }
            // precedence
            let exp_prec = if r < g.nrules() { g.prod_prec_of(r, i) } else { None };
            let got_prec = grm.prod_precedence(pidx);
            let ok = match (got_prec, exp_prec) {
                (None, None) => true,
                (Some(gp), Some((_, a))) => {
                    // must equal the precedence of the token it comes from
                    let from_tok = g.prod_prec.iter().find(|(pr, pi, _)| *pr == r && *pi == i).map(|(_, _, t)| *t).or_else(|| p.iter().rev().find_map(|s| if let Sym::T(t) = s { Some(*t) } else { None }));
                    let tp = from_tok.and_then(|t| grm.token_precedence(grm.token_idx(&tname(t)).unwrap()));
                    let _ = a;
                    tp == Some(gp)
                }
                _ => false,
            };
            if !ok {
                bad("c10-prod-prec", format!("precedence of production {} of '{}' is {:?}, expected that of {:?}", i, user_name(r), got_prec, exp_prec));
            }
            // action
            let exp_action = if s.actions { Some(action_expected(r, i)) } else { None };
            let norm = |x: &str| strip_layout(x);
            if grm.action(pidx).as_ref().map(|x| norm(x)) != exp_action.as_ref().map(|x| norm(x)) {
                bad("c10-action", format!("action of production {} of '{}' is {:?}, written {:?}", i, user_name(r), grm.action(pidx), exp_action));
            }
            if let (Some(a), Some(sp)) = (grm.action(pidx), grm.action_span(pidx)) {
                st.spans += 1;
                // pinned by the repository's own test `test_action`: the span starts right after
                // the opening brace and has the length of the *trimmed* text, so it is only
                // required to lie inside the braces of this action
                let inside = text.get(..sp.start()).map(|x| x.ends_with('{')).unwrap_or(false) || text.get(sp.start()..sp.end()).map(|x| x.trim()) == Some(a.as_str());
                if !(sp.end() <= text.len() && inside && sp.len() == a.len()) {
                    bad("c10-action-span", format!("action span {:?} = {:?} is not placed at the action text {:?}", sp, text.get(sp.start()..sp.end()), a));
                }
            }
            // production span: the symbols (and %prec), not the action
            let sp = grm.prod_span(pidx);
            st.spans += 1;
            let mut exp_text = String::new();
            if p.is_empty() && l.percent_empty {
                exp_text.push_str("%empty");
            }
            for sy in p {
                match sy {
                    Sym::R(x) => exp_text.push_str(&g.rule_name(*x)),
                    Sym::T(t) => exp_text.push_str(&match l.quote {
                        Quote::Single => format!("'{}'", tname(*t)),
                        Quote::Double => format!("\"{}\"", tname(*t)),
                        Quote::Bare => tname(*t),
                    }),
                }
            }
            if r < g.nrules() {
                for &(pr, pi, t) in &g.prod_prec {
                    if pr == r && pi == i {
                        exp_text.push_str("%prec");
                        exp_text.push_str(&match l.quote {
                            Quote::Single => format!("'{}'", tname(t)),
                            Quote::Double => format!("\"{}\"", tname(t)),
                            Quote::Bare => tname(t),
                        });
                    }
                }
            }
            match text.get(sp.start()..sp.end()) {
                Some(x) if strip_layout(x) == exp_text => {}
                other => bad("c10-prod-span", format!("span of production {} of '{}' is {:?} = {:?}, expected the text of its symbols {:?}", i, user_name(r), sp, other, exp_text)),
            }
            digest.push_str(&format!("prod {}#{} {:?} prec {:?} act {:?};", user_name(r), i, got, got_prec.map(|p| p.kind), grm.action(pidx).as_ref().map(|x| norm(x))));
        }
        // action type
        let exp_at = match s.kind {
            Kind::Grmtools => Some(rule_type(r)),
            Kind::UserAction => Some("Result<Vec<T>, ()>".to_string()),
            _ => None,
        };
        if grm.actiontype(ridx).as_ref().map(|x| strip_layout(x)) != exp_at.as_ref().map(|x| strip_layout(x)) {
            bad("c10-actiontype", format!("action type of '{}' is {:?}, written {:?}", user_name(r), grm.actiontype(ridx), exp_at));
        }
    }
    // ---- start rule
    let start_ridx = grm.start_rule_idx();
    let sp = grm.prod(grm.start_prod());
    let exp_start = if eco_extra > 0 { "R:^~".to_string() } else { format!("R:{}", g.rule_name(0)) };
    if user_ridx.contains(&start_ridx) || grm.rule_to_prods(start_ridx).len() != 1 || sp.len() != 1 || sym_name(&sp[0]) != exp_start || grm.prod_to_rule(grm.start_prod()) != start_ridx {
        bad("c10-start", format!("the added start rule is rule {} with production {:?}, expected one production deriving {}", usize::from(start_ridx), sp.iter().map(|x| sym_name(x)).collect::<Vec<_>>(), exp_start));
    }
    if eco_extra > 0 {
        // documented rewrite: ^: ^~; ^~: ~ S; ~: t ~ | ... | <empty>
        let ir = grm.implicit_rule();
        let tilde = grm.rule_idx("~");
        let st2 = grm.rule_idx("^~");
        if ir.is_none() || ir != tilde || st2.is_none() {
            bad("c10-eco", "implicit rules missing".to_string());
        } else {
            let p: Vec<String> = grm.prod(grm.rule_to_prods(st2.unwrap())[0]).iter().map(|x| sym_name(x)).collect();
            if p != vec!["R:~".to_string(), format!("R:{}", g.rule_name(0))] {
                bad("c10-eco", format!("^~ derives {:?}", p));
            }
            let mut got: Vec<Vec<String>> = grm.rule_to_prods(tilde.unwrap()).iter().map(|pi| grm.prod(*pi).iter().map(|x| sym_name(x)).collect()).collect();
            let last = got.pop();
            got.sort();
            let mut exp: Vec<Vec<String>> = s.implicit_tokens.iter().map(|t| vec![format!("T:{}", t), "R:~".to_string()]).collect();
            exp.sort();
            if got != exp || last != Some(vec![]) {
                bad("c10-eco", format!("~ derives {:?} then {:?}, expected one production per implicit token and a final empty one", got, last));
            }
        }
    }
    // ---- scalars
    if grm.expect() != s.expect || grm.expectrr() != s.expectrr {
        bad("c10-expect", format!("expect {:?} / expectrr {:?}, declared {:?} / {:?}", grm.expect(), grm.expectrr(), s.expect, s.expectrr));
    }
    let exp_pp = if s.parse_param { Some(("p".to_string(), "&'a mut Vec<(u8, é)>".to_string())) } else { None };
    if grm.parse_param() != &exp_pp {
        bad("c10-parse-param", format!("parse_param {:?}, declared {:?}", grm.parse_param(), exp_pp));
    }
    let exp_pg = if s.parse_generics { Some("'a, T: Clone".to_string()) } else { None };
    if grm.parse_generics() != &exp_pg {
        bad("c10-parse-generics", format!("parse_generics {:?}, declared {:?}", grm.parse_generics(), exp_pg));
    }
    let exp_prog = if s.programs { Some("fn helper() -> u8 { b'}' }\n// é\n".to_string()) } else { None };
    if grm.programs().as_ref().map(|x| x.trim().to_string()) != exp_prog.as_ref().map(|x| x.trim().to_string()) {
        bad("c10-programs", format!("programs {:?}, written {:?}", grm.programs(), exp_prog));
    }
    // ---- every index the API hands out is in range
    for p in 0..nprods {
        let pidx = PIdx(p as u32);
        // every per-production query must answer for every valid index
        if let Err(e) = std::panic::catch_unwind(std::panic::AssertUnwindSafe(|| {
            let sp = grm.prod_span(pidx);
            (sp, grm.action(pidx).clone(), grm.action_span(pidx), grm.prod_precedence(pidx), grm.pp_prod(pidx), grm.prod_len(pidx))
        })) {
            bad("c10-query-panic", format!("a per-production query panics for production {} of {} ({})", p, nprods, vcore::report::panic_msg(&e)));
            return None;
        }
        if usize::from(grm.prod_to_rule(pidx)) >= nrules {
            bad("c10-range", format!("prod_to_rule({}) out of range", p));
        }
        for sy in grm.prod(pidx) {
            let ok = match sy {
                Symbol::Rule(r) => usize::from(*r) < nrules,
                Symbol::Token(t) => usize::from(*t) < ntok,
            };
            if !ok {
                bad("c10-range", format!("production {} refers to an out-of-range symbol", p));
            }
        }
    }
    let mut seen = vec![false; nprods];
    for r in 0..nrules {
        for p in grm.rule_to_prods(RIdx(r as u32)) {
            let p = usize::from(*p);
            if p >= nprods || seen[p] {
                bad("c10-range", format!("rule {} lists production {} twice / out of range", r, p));
            } else {
                seen[p] = true;
            }
        }
    }
    if seen.iter().any(|x| !*x) {
        bad("c10-range", "some production belongs to no rule".to_string());
    }
    digest.push_str(&format!("expect {:?} {:?} pp {:?} pg {:?} prog {:?}", grm.expect(), grm.expectrr(), grm.parse_param(), grm.parse_generics(), grm.programs().as_ref().map(|x| x.trim().to_string())));
    Some(digest)
}

#[derive(Default, Clone)]
struct Stats {
    specs: u64,
    renderings: u64,
    built: u64,
    spans: u64,
    comment_gaps: u64,
}
impl Stats {
    fn merge(mut self, o: Stats) -> Stats {
        self.specs += o.specs;
        self.renderings += o.renderings;
        self.built += o.built;
        self.spans += o.spans;
        self.comment_gaps += o.comment_gaps;
        self
    }
}

fn layouts(quick: bool) -> Vec<Layout> {
    let mut v = vec![];
    for quote in [Quote::Single, Quote::Double, Quote::Bare] {
        for gap in 0..GAPS.len() {
            for reversed in [false, true] {
                for percent_empty in [false, true] {
                    for header in [false, true] {
                        if quick && reversed && percent_empty && header && gap % 2 == 1 {
                            continue;
                        }
                        v.push(Layout { quote, gap, reversed, percent_empty, header, reopen: false });
                        // re-opened rules: a third of the layouts (every gap style, one quoting)
                        if quote == Quote::Single && !reversed {
                            v.push(Layout { quote, gap, reversed, percent_empty, header, reopen: true });
                        }
                    }
                }
            }
        }
    }
    v
}

pub fn run(ctx: Ctx) -> i32 {
    if let Some(case) = load_replay(&ctx) {
        // rebuild the abstract specification and the one rendering, and make the same comparison
        let Some((spec, layout)) = spec_from_replay(&case) else { machinery("replay: the case does not describe a specification") };
        let Some(r) = render(&spec, &layout) else { machinery("replay: the layout does not apply to the specification") };
        if case["text"].as_str() != Some(r.text.as_str()) {
            machinery("replay: the rendering differs from the stored text (harness changed since the file was written)");
        }
        let mut st = Stats::default();
        check_one(&ctx, &spec, &layout, &r.text, &mut st);
        return ctx.finish(json!({"states":1,"transitions":1,"traces_validated_against_impl":1,"samples":[case]}), &[], false);
    }
    let mut bases: Vec<RefGrammar> = if ctx.quick() { Universe::new(2, 2, 2, 2, 3).enumerate() } else { Universe::new(2, 3, 2, 3, 5).enumerate() };
    // only grammars whose rules are all referenced (an unreferenced rule is fine for the parser
    // but adds nothing here)
    bases.retain(|g| vcore::refs::analyse(g).all_reachable());
    let nuni = bases.len();
    for s in family_seeds() {
        if s.ntoks <= 5 {
            bases.push(s);
        }
    }
    let mut featsets: Vec<Vec<&'static str>> = vec![vec![]];
    for f in FEATURES {
        featsets.push(vec![f]);
    }
    for i in 0..FEATURES.len() {
        for j in i + 1..FEATURES.len() {
            featsets.push(vec![FEATURES[i], FEATURES[j]]);
        }
    }
    let lays = layouts(ctx.quick());
    let kinds = [Kind::NoAction, Kind::Gpt, Kind::UserAction, Kind::Grmtools, Kind::Eco];
    let work: Vec<(usize, usize, usize)> = (0..bases.len()).flat_map(|b| (0..featsets.len()).flat_map(move |f| (0..5).map(move |k| (b, f, k)))).collect();
    let stats = work
        .par_iter()
        .map(|(b, f, k)| {
            let mut st = Stats::default();
            // quick tier: pairs of features only on the smallest grammars
            if ctx.quick() && featsets[*f].len() == 2 && bases[*b].nsyms() > 2 {
                return st;
            }
            let Some(spec) = mk_spec(&bases[*b], kinds[*k], &featsets[*f]) else { return st };
            st.specs += 1;
            let mut digests: Vec<(String, Layout)> = vec![];
            for l in &lays {
                let Some(r) = render(&spec, l) else { continue };
                st.renderings += 1;
                if l.gap >= 3 {
                    st.comment_gaps += 1;
                }
                if let Some(d) = check_one(&ctx, &spec, l, &r.text, &mut st) {
                    digests.push((d, *l));
                }
            }
            if let Some((d0, l0)) = digests.first() {
                for (d, l) in &digests[1..] {
                    if d != d0 {
                        ctx.violation(
                            "c10-rendering-dependent",
                            &format!("two renderings of one specification give different grammars: layout {:?} vs {:?}\n{}\n---\n{}", l0, l, render(&spec, l0).unwrap().text, render(&spec, l).unwrap().text),
                            replay_case(&spec, l, &render(&spec, l).unwrap().text),
                        );
                        break;
                    }
                }
            }
            st
        })
        .reduce(Stats::default, |a, b| a.merge(b));
    if stats.built == 0 || stats.comment_gaps == 0 {
        machinery("vacuous exploration (C10)");
    }
    let demo = mk_spec(&bases[bases.len() / 2], Kind::Grmtools, &["precs", "epp"]).or_else(|| mk_spec(&family_seeds()[1], Kind::Grmtools, &["precs", "epp"])).unwrap();
    ctx.sample(json!({"text": render(&demo, &Layout { quote: Quote::Single, gap: 4, reversed: true, percent_empty: true, header: true, reopen: false }).map(|r| r.text)}));
    let cov = json!({
        "states": stats.specs,
        "transitions": stats.renderings,
        "traces_validated_against_impl": stats.built,
        "evaluations": stats.renderings,
        "distinct_nontrivial": stats.comment_gaps,
        "rule": "rendering = abstract specification (grammar x feature set of size <= 2 x yacc kind) x layout (3 quotings x 6 gap styles x declaration order x %empty x header); non-trivial = renderings whose gaps are comments",
        "base_grammars": bases.len(),
        "universe_grammars": nuni,
        "feature_sets": featsets.len(),
        "layouts": lays.len(),
        "abstract_specifications": stats.specs,
        "renderings": stats.renderings,
        "grammars_built": stats.built,
        "span_checks": stats.spans,
    });
    ctx.finish(cov, &["action code and action types are compared modulo comments and whitespace (they are Rust fragments)", "precedence levels are compared by relative order", "the productions of Eco's implicit rule are compared as a set followed by the empty production"], true)
}

//! C17 — grammar analyses (FIRST, FOLLOW, nullable, reachability, sentence costs) are exact.
//!
//! Enumerated: the unrestricted grammar universes (unproductive, unreachable, unit-cyclic rules
//! included) x every cost vector. Oracle: textbook least fixed points (vcore::refs::analyse),
//! themselves validated against a brute-force sentential-form enumeration; sentence costs against
//! shortest/longest-derivation fixed points validated against bounded language enumeration.
//! The sentence generator runs in watched child processes (it can loop or recurse for ever).

use crate::common::*;
use cfgrammar::yacc::YaccGrammar;
use cfgrammar::{RIdx, TIdx};
use rayon::prelude::*;
use serde_json::{Value, json};
use std::time::Duration;
use vcore::gram::{RefGrammar, Sym, Universe};
use vcore::pool::{WOut, run_pool, worker_main};
use vcore::real::{YK, build_grammar};
use vcore::refs::{Analysis, Earley, TokSet, analyse, bounded_languages, brute_analysis};
use vcore::report::Ctx;

fn vob_to_set(v: &vob::Vob, grm: &YaccGrammar<u32>, g: &RefGrammar) -> Result<TokSet, String> {
    let mut out: TokSet = 0;
    for i in v.iter_set_bits(..) {
        let tidx = TIdx(i as u32);
        if tidx == grm.eof_token_idx() {
            out |= 1 << g.ntoks;
        } else {
            let name = grm.token_name(tidx).ok_or("unnamed token")?;
            let t = (0..g.ntoks)
                .find(|t| g.tok_name(*t) == name)
                .ok_or_else(|| format!("unknown token {}", name))?;
            out |= 1 << t;
        }
    }
    Ok(out)
}

fn set_str(g: &RefGrammar, s: TokSet) -> String {
    let mut v = vec![];
    for t in 0..=g.ntoks {
        if s & (1 << t) != 0 {
            v.push(if t == g.ntoks { "$".to_string() } else { g.tok_name(t) });
        }
    }
    format!("{{{}}}", v.join(","))
}

/// Static analyses of one grammar against the reference. Returns the number of (rule, query)
/// comparisons made.
fn check_static(ctx: &Ctx, g: &RefGrammar) -> u64 {
    let text = g.to_yacc();
    let grm = match build_grammar::<u32>(&text, YK) {
        Ok(x) => x,
        Err(e) => {
            ctx.count("grammars_rejected_by_parser", 1);
            ctx.violation(
                "c17-reject",
                &format!("grammar rejected by YaccGrammar::new: {:?} for {}", e, g.short()),
                json!({"grammar": g.to_json(), "kind": "static"}),
            );
            return 0;
        }
    };
    let an = analyse(g);
    let firsts = grm.firsts();
    let follows = grm.follows();
    let mut n = 0;
    let ridx = |r: usize| grm.rule_idx(&g.rule_name(r)).unwrap();
    for r in 0..g.nrules() {
        let ri = ridx(r);
        n += 3;
        match vob_to_set(firsts.firsts(ri), &grm, g) {
            Ok(f) => {
                if f != an.first[r] {
                    ctx.violation(
                        "first",
                        &format!(
                            "FIRST({}) = {} but reference says {} for {}",
                            g.rule_name(r),
                            set_str(g, f),
                            set_str(g, an.first[r]),
                            g.short()
                        ),
                        json!({"grammar": g.to_json(), "kind": "static", "rule": r}),
                    );
                }
            }
            Err(e) => ctx.violation("first-idx", &e, json!({"grammar": g.to_json(), "kind": "static"})),
        }
        if firsts.is_epsilon_set(ri) != an.nullable[r] {
            ctx.violation(
                "nullable",
                &format!(
                    "epsilon({}) = {} but reference says {} for {}",
                    g.rule_name(r),
                    firsts.is_epsilon_set(ri),
                    an.nullable[r],
                    g.short()
                ),
                json!({"grammar": g.to_json(), "kind": "static", "rule": r}),
            );
        }
        match vob_to_set(follows.follows(ri), &grm, g) {
            Ok(f) => {
                if f != an.follow[r] {
                    ctx.violation(
                        "follow",
                        &format!(
                            "FOLLOW({}) = {} but reference says {} for {}",
                            g.rule_name(r),
                            set_str(g, f),
                            set_str(g, an.follow[r]),
                            g.short()
                        ),
                        json!({"grammar": g.to_json(), "kind": "static", "rule": r}),
                    );
                }
            }
            Err(e) => ctx.violation("follow-idx", &e, json!({"grammar": g.to_json(), "kind": "static"})),
        }
        for r2 in 0..g.nrules() {
            n += 1;
            let hp = grm.has_path(ri, ridx(r2));
            if hp != an.reach[r][r2] {
                ctx.violation(
                    "has_path",
                    &format!(
                        "has_path({}, {}) = {} but reference says {} for {}",
                        g.rule_name(r),
                        g.rule_name(r2),
                        hp,
                        an.reach[r][r2],
                        g.short()
                    ),
                    json!({"grammar": g.to_json(), "kind": "static", "rule": r, "to": r2}),
                );
            }
        }
        // the added start rule reaches exactly the user start rule and what that reaches
        n += 1;
        let start = grm.start_rule_idx();
        let hp = grm.has_path(start, ri);
        let exp = r == 0 || an.reach[0][r];
        if hp != exp {
            ctx.violation(
                "has_path-start",
                &format!("has_path(^, {}) = {} but reference says {} for {}", g.rule_name(r), hp, exp, g.short()),
                json!({"grammar": g.to_json(), "kind": "static", "rule": r}),
            );
        }
    }
    // the added start rule itself: FIRST = FIRST(S), epsilon = nullable(S), FOLLOW = {$}
    n += 3;
    let start = grm.start_rule_idx();
    if let Ok(f) = vob_to_set(firsts.firsts(start), &grm, g) {
        if f != an.first[0] || firsts.is_epsilon_set(start) != an.nullable[0] {
            ctx.violation(
                "first-start",
                &format!("FIRST/epsilon of the added start rule wrong for {}", g.short()),
                json!({"grammar": g.to_json(), "kind": "static"}),
            );
        }
    }
    if let Ok(f) = vob_to_set(follows.follows(start), &grm, g) {
        if f != 1 << g.ntoks {
            ctx.violation(
                "follow-start",
                &format!("FOLLOW of the added start rule is {} for {}", set_str(g, f), g.short()),
                json!({"grammar": g.to_json(), "kind": "static"}),
            );
        }
    }
    n
}

// ------------------------------------------------------------------------------------------------
// Sentence costs: reference
// ------------------------------------------------------------------------------------------------

pub struct CostRef {
    /// None = rule derives no string
    pub min: Vec<Option<u32>>,
    /// for productive rules: None = unbounded
    pub max: Vec<Option<u32>>,
}

pub fn cost_reference(g: &RefGrammar, an: &Analysis, costs: &[u8]) -> CostRef {
    let n = g.nrules();
    let prod_ok = |p: &Vec<Sym>| {
        p.iter().all(|s| match s {
            Sym::R(x) => an.productive[*x],
            Sym::T(_) => true,
        })
    };
    // minimum: Bellman-Ford style fixed point
    let mut min: Vec<Option<u32>> = vec![None; n];
    loop {
        let mut ch = false;
        for r in 0..n {
            for p in &g.rules[r] {
                let mut c = Some(0u32);
                for s in p {
                    c = match (c, s) {
                        (Some(c), Sym::T(t)) => Some(c + costs[*t] as u32),
                        (Some(c), Sym::R(x)) => min[*x].map(|m| c + m),
                        (None, _) => None,
                    };
                }
                if let Some(c) = c {
                    if min[r].is_none() || c < min[r].unwrap() {
                        min[r] = Some(c);
                        ch = true;
                    }
                }
            }
        }
        if !ch {
            break;
        }
    }
    // which rules derive some non-empty string?
    let mut nonempty = vec![false; n];
    loop {
        let mut ch = false;
        for r in 0..n {
            if nonempty[r] || !an.productive[r] {
                continue;
            }
            if g.rules[r].iter().filter(|p| prod_ok(p)).any(|p| {
                p.iter().any(|s| match s {
                    Sym::T(_) => true,
                    Sym::R(x) => nonempty[*x],
                })
            }) {
                nonempty[r] = true;
                ch = true;
            }
        }
        if !ch {
            break;
        }
    }
    // edges of the pruned grammar; growing = some *other* symbol of the production derives a
    // non-empty string
    let mut edge = vec![vec![false; n]; n];
    let mut growing = vec![vec![false; n]; n];
    for r in 0..n {
        if !an.productive[r] {
            continue;
        }
        for p in g.rules[r].iter().filter(|p| prod_ok(p)) {
            for (i, s) in p.iter().enumerate() {
                if let Sym::R(x) = s {
                    edge[r][*x] = true;
                    let grows = p.iter().enumerate().any(|(j, s2)| {
                        j != i
                            && match s2 {
                                Sym::T(_) => true,
                                Sym::R(y) => nonempty[*y],
                            }
                    });
                    if grows {
                        growing[r][*x] = true;
                    }
                }
            }
        }
    }
    let mut path = edge.clone();
    for k in 0..n {
        for i in 0..n {
            for j in 0..n {
                if path[i][k] && path[k][j] {
                    path[i][j] = true;
                }
            }
        }
    }
    // a rule is on a growing cycle if some growing edge a->b lies on a cycle through it
    let mut infinite = vec![false; n];
    for a in 0..n {
        for b in 0..n {
            if growing[a][b] && (b == a || path[b][a]) {
                infinite[a] = true;
            }
        }
    }
    for r in 0..n {
        for x in 0..n {
            if infinite[x] && path[r][x] {
                infinite[r] = true;
            }
        }
    }
    let mut max: Vec<Option<u32>> = vec![None; n];
    let mut cur = vec![0u32; n];
    loop {
        let mut ch = false;
        for r in 0..n {
            if !an.productive[r] || infinite[r] {
                continue;
            }
            for p in g.rules[r].iter().filter(|p| prod_ok(p)) {
                let mut c = 0u32;
                for s in p {
                    c += match s {
                        Sym::T(t) => costs[*t] as u32,
                        Sym::R(x) => cur[*x],
                    };
                }
                if c > cur[r] {
                    cur[r] = c;
                    ch = true;
                }
            }
        }
        if !ch {
            break;
        }
    }
    for r in 0..n {
        if an.productive[r] && !infinite[r] {
            max[r] = Some(cur[r]);
        }
    }
    CostRef { min, max }
}

fn word_cost(w: &[u8], costs: &[u8]) -> u32 {
    w.iter().map(|t| costs[*t as usize] as u32).sum()
}

/// Validate the cost reference against bounded language enumeration (second, dumber oracle).
fn validate_cost_reference(g: &RefGrammar, an: &Analysis, costs: &[u8], cr: &CostRef, n: usize) -> Result<u64, String> {
    let lang = bounded_languages(g, n);
    let mut checks = 0;
    for r in 0..g.nrules() {
        if an.productive[r] != !lang[r].is_empty() && an.productive[r] {
            // productive but no sentence within the bound: cannot cross-check this rule
            continue;
        }
        if !an.productive[r] {
            if !lang[r].is_empty() {
                return Err(format!("reference says {} unproductive but enumeration finds a sentence", r));
            }
            continue;
        }
        let bmin = lang[r].iter().map(|w| word_cost(w, costs)).min().unwrap();
        let bmax = lang[r].iter().map(|w| word_cost(w, costs)).max().unwrap();
        let rmin = cr.min[r].ok_or("productive rule without min")?;
        // every token costs >= 1, so a sentence of cost c has length <= c: if rmin <= n the
        // enumeration must contain a witness
        if rmin as usize <= n {
            checks += 1;
            if bmin != rmin {
                return Err(format!("min cost of rule {}: fixed point {} vs enumeration {}", r, rmin, bmin));
            }
        } else if bmin < rmin {
            return Err(format!("min cost of rule {}: fixed point {} > enumeration {}", r, rmin, bmin));
        }
        match cr.max[r] {
            Some(m) => {
                if bmax > m {
                    return Err(format!("max cost of rule {}: fixed point {} < enumeration {}", r, m, bmax));
                }
                if (m as usize) <= n {
                    checks += 1;
                    if bmax != m {
                        return Err(format!("max cost of rule {}: fixed point {} vs enumeration {}", r, m, bmax));
                    }
                }
            }
            None => {
                // unbounded: the enumeration must contain a sentence of the maximal length n or n-1..
                // (a growing cycle adds at least one token per turn but may add several)
                checks += 1;
                let longest = lang[r].iter().map(|w| w.len()).max().unwrap();
                if longest + g.nsyms() + 1 < n {
                    return Err(format!(
                        "rule {} claimed unbounded but longest sentence within bound {} is {}",
                        r, n, longest
                    ));
                }
            }
        }
    }
    Ok(checks)
}

// ------------------------------------------------------------------------------------------------
// Worker: run the real sentence generator for one (grammar, costs, query)
// ------------------------------------------------------------------------------------------------

pub fn worker(_args: &[String]) {
    worker_main(|line| {
        let v: Value = match serde_json::from_str(line) {
            Ok(v) => v,
            Err(e) => return json!({"err": format!("bad case: {}", e)}).to_string(),
        };
        let g = match RefGrammar::from_json(&v["grammar"]) {
            Some(g) => g,
            None => return json!({"err": "bad grammar"}).to_string(),
        };
        let costs: Vec<u8> = v["costs"].as_array().unwrap().iter().map(|x| x.as_u64().unwrap() as u8).collect();
        let q = v["q"].as_str().unwrap().to_string();
        let grm = match build_grammar::<u32>(&g.to_yacc(), YK) {
            Ok(x) => x,
            Err(e) => return json!({"err": format!("{:?}", e)}).to_string(),
        };
        let tmap: Vec<TIdx<u32>> = (0..g.ntoks).map(|t| grm.token_idx(&g.tok_name(t)).unwrap()).collect();
        let cost_of = |tidx: TIdx<u32>| -> u8 {
            tmap.iter().position(|x| *x == tidx).map(|t| costs[t]).unwrap_or(1)
        };
        let untok = |ts: &Vec<TIdx<u32>>| -> Vec<i64> {
            ts.iter()
                .map(|x| tmap.iter().position(|y| y == x).map(|p| p as i64).unwrap_or(-1))
                .collect()
        };
        let mut out = vec![];
        for r in 0..g.nrules() {
            let ridx: RIdx<u32> = grm.rule_idx(&g.rule_name(r)).unwrap();
            let grm_ref = &grm;
            let res = std::panic::catch_unwind(std::panic::AssertUnwindSafe(|| {
                // a fresh generator per rule: what a user calling one query would do
                let sg = grm_ref.sentence_generator(&cost_of);
                match q.as_str() {
                    "mincost" => json!(sg.min_sentence_cost(ridx)),
                    "maxcost" => json!(sg.max_sentence_cost(ridx)),
                    "minsent" => json!(untok(&sg.min_sentence(ridx))),
                    "minsents" => {
                        let ss: Vec<Vec<i64>> = sg.min_sentences(ridx).iter().map(|s| untok(s)).collect();
                        json!(ss)
                    }
                    _ => json!(null),
                }
            }));
            out.push(match res {
                Ok(v) => json!({"ok": v}),
                Err(e) => json!({"panic": vcore::report::panic_msg(&e)}),
            });
        }
        json!({"rules": out}).to_string()
    });
}


/// Defect model C17-b: an abstract re-execution of the cost fixed point as implemented
/// (`rule_min_costs`: costs start at 0, a rule is final once its cheapest complete production is
/// strictly cheaper than its cheapest incomplete one). Returns false if the iteration reaches a
/// state it can never leave (no cost and no `done` flag changes in a whole sweep while some rule is
/// not done) - i.e. the implementation loops for ever.
pub fn min_cost_fixpoint_terminates(g: &RefGrammar, costs: &[u8]) -> bool {
    // rule 0 = the added start rule `^: R0`; user rule r = r + 1
    let n = g.nrules() + 1;
    let mut prods: Vec<Vec<Vec<Sym>>> = vec![vec![vec![Sym::R(1)]]];
    for ps in &g.rules {
        prods.push(
            ps.iter()
                .map(|p| p.iter().map(|s| match s { Sym::R(x) => Sym::R(x + 1), t => *t }).collect())
                .collect(),
        );
    }
    let mut cost = vec![0u32; n];
    let mut done = vec![false; n];
    loop {
        let mut all_done = true;
        let mut changed = false;
        for i in 0..n {
            if done[i] {
                continue;
            }
            all_done = false;
            let mut ls_c: Option<u32> = None;
            let mut ls_n: Option<u32> = None;
            for p in &prods[i] {
                let mut c = 0u32;
                let mut cm = true;
                for s in p {
                    c += match s {
                        Sym::T(t) => costs[*t] as u32,
                        Sym::R(x) => {
                            if !done[*x] {
                                cm = false;
                            }
                            cost[*x]
                        }
                    };
                }
                if cm && (ls_c.is_none() || c < ls_c.unwrap()) {
                    ls_c = Some(c);
                } else if !cm && (ls_n.is_none() || c < ls_n.unwrap()) {
                    ls_n = Some(c);
                }
            }
            if ls_c.is_some() && (ls_n.is_none() || ls_c.unwrap() < ls_n.unwrap()) {
                cost[i] = ls_c.unwrap();
                done[i] = true;
                changed = true;
            } else if let Some(x) = ls_n {
                if cost[i] != x {
                    changed = true;
                }
                cost[i] = x;
            }
        }
        if all_done {
            return true;
        }
        if !changed || cost.iter().any(|c| *c > 60000) {
            return false;
        }
    }
}

const QUERIES: [&str; 4] = ["mincost", "maxcost", "minsent", "minsents"];

fn case_line(g: &RefGrammar, costs: &[u8], q: &str) -> String {
    json!({"grammar": g.to_json(), "costs": costs, "q": q}).to_string()
}

/// Does the grammar contain what the C17-b defect model needs: a rule that derives no string, or
/// a rule that derives itself?
fn has_degenerate_rule(an: &Analysis) -> bool {
    !an.all_productive() || an.any_cyclic()
}

/// C17-c defect model: `rule` is, or references (transitively), a syntactically recursive rule.
fn reaches_recursive(an: &Analysis, r: usize) -> bool {
    (0..an.reach.len()).any(|x| an.reach[x][x] && (x == r || an.reach[r][x]))
}

fn judge_costs(ctx: &Ctx, g: &RefGrammar, costs: &[u8], q: &str, res: &WOut, confirmed: bool) {
    let an = analyse(g);
    let cr = cost_reference(g, &an, costs);
    let case = json!({"grammar": g.to_json(), "costs": costs, "q": q, "kind": "cost"});
    let v = match res {
        WOut::Ok(l) => serde_json::from_str::<Value>(l).unwrap_or(json!({"err": "unparsable worker output"})),
        WOut::Timeout => {
            if !confirmed {
                return;
            }
            let summary = format!("{} does not return (costs {:?}) for {}", q, costs, g.short());
            if q != "maxcost" && !min_cost_fixpoint_terminates(g, costs) {
                ctx.defect("nonterminating_cost_fixpoint", &summary, case);
            } else {
                ctx.violation(&format!("hang-{}", q), &summary, case);
            }
            ctx.count("confirmed_hangs", 1);
            return;
        }
        WOut::Crash(s) => {
            let summary = format!("{} crashed the process ({}) (costs {:?}) for {}", q, s, costs, g.short());
            if q != "maxcost" && !min_cost_fixpoint_terminates(g, costs) {
                ctx.defect("nonterminating_cost_fixpoint", &summary, case);
            } else {
                ctx.violation(&format!("crash-{}", q), &summary, case);
            }
            ctx.count("crashes", 1);
            return;
        }
    };
    if let Some(e) = v.get("err") {
        machinery(&format!("c17 worker: {}", e));
    }
    let rules = v["rules"].as_array().unwrap();
    for r in 0..g.nrules() {
        let rr = &rules[r];
        if !an.productive[r] {
            // value unconstrained by the statement; a panic is an observation only
            if rr.get("panic").is_some() {
                ctx.count("panics_on_unproductive_rules", 1);
            }
            continue;
        }
        if let Some(p) = rr.get("panic") {
            let summary = format!(
                "{}({}) panicked: {} (costs {:?}) for {}",
                q,
                g.rule_name(r),
                p,
                costs,
                g.short()
            );
            if q != "maxcost" && !min_cost_fixpoint_terminates(g, costs) {
                ctx.defect("nonterminating_cost_fixpoint", &summary, case.clone());
            } else {
                ctx.violation(&format!("panic-{}", q), &summary, case.clone());
            }
            continue;
        }
        let ok = &rr["ok"];
        let rmin = cr.min[r].unwrap();
        match q {
            "mincost" => {
                if ok.as_u64() != Some(rmin as u64) {
                    ctx.violation(
                        "mincost",
                        &format!(
                            "min_sentence_cost({}) = {} but true minimum is {} (costs {:?}) for {}",
                            g.rule_name(r), ok, rmin, costs, g.short()
                        ),
                        case.clone(),
                    );
                }
            }
            "maxcost" => {
                let got = ok.as_u64().map(|x| x as u32);
                if got != cr.max[r] {
                    let summary = format!(
                        "max_sentence_cost({}) = {:?} but true maximum is {:?} (costs {:?}) for {}",
                        g.rule_name(r), got, cr.max[r], costs, g.short()
                    );
                    if got.is_none() && reaches_recursive(&an, r) {
                        ctx.defect("max_cost_recursive_means_unbounded", &summary, case.clone());
                    } else {
                        ctx.violation("maxcost", &summary, case.clone());
                    }
                }
            }
            "minsent" | "minsents" => {
                let sents: Vec<Vec<i64>> = if q == "minsent" {
                    vec![serde_json::from_value(ok.clone()).unwrap_or_default()]
                } else {
                    serde_json::from_value(ok.clone()).unwrap_or_default()
                };
                if sents.is_empty() {
                    ctx.violation(
                        "minsents-empty",
                        &format!("min_sentences({}) is empty for productive rule, {}", g.rule_name(r), g.short()),
                        case.clone(),
                    );
                }
                let ea = Earley::with_start(g, r);
                for s in sents {
                    if s.iter().any(|t| *t < 0) {
                        ctx.violation("minsent-tok", &format!("{} returned an unknown token for {}", q, g.short()), case.clone());
                        continue;
                    }
                    let w: Vec<usize> = s.iter().map(|t| *t as usize).collect();
                    let c: u32 = w.iter().map(|t| costs[*t] as u32).sum();
                    if !ea.accepts(&w) {
                        ctx.violation(
                            "minsent-underivable",
                            &format!("{}({}) returned {:?} which the rule does not derive, {}", q, g.rule_name(r), w, g.short()),
                            case.clone(),
                        );
                    } else if c != rmin {
                        ctx.violation(
                            "minsent-cost",
                            &format!(
                                "{}({}) returned {:?} of cost {} but the minimum is {} (costs {:?}), {}",
                                q, g.rule_name(r), w, c, rmin, costs, g.short()
                            ),
                            case.clone(),
                        );
                    }
                }
            }
            _ => {}
        }
    }
}

pub fn run(ctx: Ctx) -> i32 {
    let timeout = Duration::from_secs(4);
    let confirm = Duration::from_secs(10);
    if let Some(case) = load_replay(&ctx) {
        let g = replay_grammar(&case);
        if case["kind"] == "static" {
            check_static(&ctx, &g);
        } else {
            let costs: Vec<u8> = case["costs"].as_array().unwrap().iter().map(|x| x.as_u64().unwrap() as u8).collect();
            let q = case["q"].as_str().unwrap();
            let line = case_line(&g, &costs, q);
            let r = vcore::pool::confirm_alone("c17", &[], &line, confirm, 2048);
            judge_costs(&ctx, &g, &costs, q, &r, true);
        }
        return ctx.finish(json!({"states":1,"transitions":1,"traces_validated_against_impl":1,"samples":[case]}), &[], false);
    }

    let lists = if ctx.quick() {
        universe_list(&[(2, 2, 2, 2, 6), (2, 2, 2, 3, 5)])
    } else {
        universe_list(&[(2, 2, 2, 2, 6), (2, 2, 2, 3, 5), (2, 3, 2, 2, 6), (2, 2, 3, 2, 6), (3, 2, 2, 2, 6), (2, 2, 2, 3, 7)])
    };
    let (mut grammars, mut sizes) = union(lists);
    // structured families (static analyses only: they are larger than the cost passes' bounds):
    // nullable chains in both definition orders, empty-production idioms, and the same skeletons
    // moved to token indices 62-120 / rule indices up to 65 (bit vectors longer than one word)
    for (n, f) in [
        ("F-chains", vcore::gram::family_chains()),
        ("F-empty", vcore::gram::family_empty().into_iter().chain(vcore::gram::family_empty2()).collect::<Vec<_>>()),
        ("F-wide (tokens from index 62-120, rules from index 1-65)", vcore::gram::family_wide()),
        ("F-refgraph (every reference graph on four rules with <= 2 ordered references per rule)", vcore::gram::family_refgraph()),
    ] {
        sizes.push((n.to_string(), f.len()));
        grammars.extend(f);
    }
    ctx.set("grammars", grammars.len() as u64);

    // 0. validate the reference analyses against brute force (machinery self-check)
    let val_n = if ctx.quick() { 6000 } else { 40000 };
    let bad: Vec<String> = grammars
        .par_iter()
        .take(val_n)
        .filter_map(|g| {
            let an = analyse(g);
            let (bn, bf, bw) = brute_analysis(g, 6);
            for r in 0..g.nrules() {
                if (bn[r] && !an.nullable[r]) || (bf[r] & !an.first[r]) != 0 || (bw[r] & !an.follow[r]) != 0 {
                    return Some(format!("brute force exceeds fixed point on {}", g.short()));
                }
                // for these sizes the bound 6 saturates nullable and FIRST
                if bn[r] != an.nullable[r] || bf[r] != an.first[r] {
                    return Some(format!("nullable/FIRST fixed point not reached by brute force on {}", g.short()));
                }
            }
            None
        })
        .collect();
    if !bad.is_empty() {
        machinery(&format!("reference analyses disagree with brute force: {}", bad[0]));
    }
    ctx.set("reference_selfcheck_grammars", val_n.min(grammars.len()) as u64);
    eprintln!("[c17] selfcheck done {:?}", ctx.start.elapsed());

    // 1. static analyses, in-process, in parallel
    let comparisons: u64 = grammars.par_iter().map(|g| check_static(&ctx, g)).sum();
    ctx.set("static_comparisons", comparisons);
    eprintln!("[c17] static done {:?}", ctx.start.elapsed());

    // 2. sentence generator, in watched child processes
    let cost_vals: &[u8] = if ctx.quick() { &[1, 2] } else { &[1, 2, 3] };
    let (clean_max, degen_max) = if ctx.quick() { (5, 4) } else { (6, 5) };
    let big_cost_max = if ctx.quick() { 4 } else { 5 };
    let mut cases = vec![];
    let mut meta = vec![];
    let mut dcases = vec![];
    let mut dmeta = vec![];
    let mut selfchecks = 0u64;
    let stall_budget = if ctx.quick() { 400usize } else { 6000 };
    // (grammar, costs, terminates?) in canonical order, computed in parallel
    let triples: Vec<(RefGrammar, Vec<u8>, bool, u64)> = grammars
        .par_iter()
        .filter(|g| g.nsyms() <= clean_max)
        .flat_map_iter(|g| {
            let an = analyse(g);
            let mut v = vec![];
            // small and (on the smaller grammars) large costs: token costs are u8, sums are not
            let mut cvs = vectors(cost_vals, g.ntoks);
            if g.ntoks > 0 && g.nsyms() <= big_cost_max {
                cvs.extend(vectors(&[100, 200], g.ntoks));
                cvs.push(vec![255; g.ntoks]);
            }
            for costs in cvs {
                let cr = cost_reference(g, &an, &costs);
                let n = match validate_cost_reference(g, &an, &costs, &cr, 7) {
                    Ok(n) => n,
                    Err(e) => machinery(&format!("cost reference self-check failed on {}: {}", g.short(), e)),
                };
                let t = min_cost_fixpoint_terminates(g, &costs);
                v.push((g.clone(), costs, t, n));
            }
            v
        })
        .collect();
    // quick tier: the finite-language (non-recursive, all rules reachable) three-rule grammars are
    // small enough to go through the two cost queries as well (three levels of rule references are
    // needed before an estimate of max_sentence_cost meets a finished production)
    let extra: Vec<(RefGrammar, Vec<u8>, bool, u64)> = if ctx.quick() {
        Universe::new(3, 2, 2, 2, 6)
            .enumerate()
            .par_iter()
            .filter(|g| g.nrules() == 3)
            .filter(|g| {
                let an = analyse(g);
                (0..g.nrules()).all(|r| !an.cyclic[r] && an.productive[r] && an.reachable_from_start[r])
            })
            .flat_map_iter(|g| {
                let an = analyse(g);
                let mut v = vec![];
                for costs in vectors(&[1, 2], g.ntoks) {
                    let cr = cost_reference(g, &an, &costs);
                    let n = match validate_cost_reference(g, &an, &costs, &cr, 7) {
                        Ok(n) => n,
                        Err(e) => machinery(&format!("cost reference self-check failed on {}: {}", g.short(), e)),
                    };
                    let t = min_cost_fixpoint_terminates(g, &costs);
                    v.push((g.clone(), costs, t, n));
                }
                v
            })
            .collect()
    } else {
        vec![]
    };
    ctx.set("finite_three_rule_grammar_cost_vectors", extra.len() as u64);
    let nmain = triples.len();
    let mut stalls_seen = 0u64;
    for (k, (g, costs, terminates, n)) in triples.into_iter().chain(extra).enumerate() {
        selfchecks += n;
        if k >= nmain {
            // (where the min-cost fixed point as implemented cannot terminate - defect model
            // C17-b, exercised by the main pass - only the max-cost query is run)
            for q in ["mincost", "maxcost"] {
                if q == "mincost" && !terminates {
                    continue;
                }
                cases.push(case_line(&g, &costs, q));
                meta.push((g.clone(), costs.clone(), q));
            }
            continue;
        }
        // Cases on which the cost fixed point *as implemented* cannot terminate (defect model
        // C17-b) are expected to hang: they go to their own pass with a short first-pass limit;
        // min_sentence / min_sentences would hang in the very same call, so only the two cost
        // queries are run there, and only the first `stall_budget` such cases (simplest first) -
        // the rest are counted, not run.
        if !terminates {
            stalls_seen += 1;
            if dcases.len() < 2 * stall_budget && g.nsyms() <= degen_max + 1 {
                for q in ["mincost", "maxcost"] {
                    dcases.push(case_line(&g, &costs, q));
                    dmeta.push((g.clone(), costs.clone(), q));
                }
            }
            continue;
        }
        for q in QUERIES {
            cases.push(case_line(&g, &costs, q));
            meta.push((g.clone(), costs.clone(), q));
        }
    }
    ctx.set("cases_where_impl_fixpoint_cannot_terminate", stalls_seen);
    ctx.set("cost_reference_selfchecks", selfchecks);
    eprintln!("[c17] cost refs done {:?} cases {} {}", ctx.start.elapsed(), cases.len(), dcases.len());
    ctx.set("cost_cases_wellformed_grammars", cases.len() as u64);
    ctx.set("cost_cases_degenerate_grammars", dcases.len() as u64);
    // 2a. well-formed grammars: a timeout is unexpected; confirm each one alone
    let results = run_pool("c17", &[], &cases, 16, timeout, 2048);
    let mut timeouts = vec![];
    for (i, r) in results.iter().enumerate() {
        if *r == WOut::Timeout {
            timeouts.push(i);
        }
    }
    results.par_iter().enumerate().for_each(|(i, r)| {
        if *r != WOut::Timeout {
            judge_costs(&ctx, &meta[i].0, &meta[i].1, meta[i].2, r, true);
        }
    });
    let tcases: Vec<String> = timeouts.iter().map(|i| cases[*i].clone()).collect();
    let confirmed = run_pool("c17", &[], &tcases, 4, confirm, 2048);
    for (k, r) in confirmed.iter().enumerate() {
        let i = timeouts[k];
        judge_costs(&ctx, &meta[i].0, &meta[i].1, meta[i].2, r, true);
    }
    // 2b. degenerate grammars: short first-pass limit (a case takes microseconds); every timeout
    // is confirmed alone unless the non-termination is a listed known finding, in which case the
    // first 16 are confirmed and the rest are attributed to it
    let dres = run_pool("c17", &[], &dcases, 16, Duration::from_millis(250), 2048);
    let mut dto = vec![];
    for (i, r) in dres.iter().enumerate() {
        if *r == WOut::Timeout {
            dto.push(i);
        } else {
            judge_costs(&ctx, &dmeta[i].0, &dmeta[i].1, dmeta[i].2, r, true);
        }
    }
    ctx.set("timeouts_first_pass", (timeouts.len() + dto.len()) as u64);
    eprintln!("[c17] pools done {:?} timeouts {} {}", ctx.start.elapsed(), timeouts.len(), dto.len());
    let nconfirm = if ctx.is_known("nonterminating_cost_fixpoint") { dto.len().min(16) } else { dto.len() };
    let tc: Vec<String> = dto.iter().take(nconfirm).map(|i| dcases[*i].clone()).collect();
    let conf = run_pool("c17", &[], &tc, 16, Duration::from_secs(3), 2048);
    for (k, i) in dto.iter().enumerate() {
        let r = if k < nconfirm { conf[k].clone() } else { WOut::Timeout };
        judge_costs(&ctx, &dmeta[*i].0, &dmeta[*i].1, dmeta[*i].2, &r, true);
    }
    let ncases = cases.len() + dcases.len();

    let degenerate = grammars.iter().filter(|g| has_degenerate_rule(&analyse(g))).count();
    let nullable_follower = grammars
        .iter()
        .filter(|g| {
            let an = analyse(g);
            g.rules.iter().flatten().any(|p| {
                p.windows(3).any(|w| matches!((w[0], w[1]), (Sym::R(_), Sym::R(y)) if an.nullable[y]))
            })
        })
        .count();
    for g in grammars.iter().filter(|g| g.nsyms() >= 4).take(3) {
        ctx.sample(json!({"grammar": g.short(), "checked": "FIRST/FOLLOW/nullable/has_path for every rule; cost queries for every cost vector"}));
    }
    let cov = json!({
        "states": grammars.len(),
        "transitions": comparisons + ncases as u64,
        "traces_validated_against_impl": comparisons + ncases as u64,
        "evaluations": grammars.len() as u64 + ncases as u64,
        "distinct_nontrivial": degenerate + nullable_follower,
        "rule": "every grammar of the listed universes up to renaming; non-trivial = has an unproductive or self-deriving rule, or a rule followed by a nullable rule followed by something",
        "universes": sizes.iter().map(|(n, s)| json!({"name": n, "size": s})).collect::<Vec<_>>(),
        "grammars_with_degenerate_rule": degenerate,
        "grammars_with_nullable_follower": nullable_follower,
        "cost_vectors_over": cost_vals,
        "large_cost_vectors": "over {100, 200} and all-255, on grammars of at most 4 (thorough 5) symbols",
    });
    ctx.finish(
        cov,
        &["reference = textbook least fixed points, cross-checked against brute-force sentential-form and language enumeration", "values for rules that derive no string are unconstrained; only termination is required there"],
        true,
    )
}

//! C13 — a compile-time generated parser and lexer behave exactly like the run-time ones.
//!
//! The work is done by the `ctrt` crate (built by ./check for this property): its build script
//! runs the REAL compile-time builders of the working tree over the enumerated cases and rustc
//! compiles what they generate; its binary compares every generated module with the run-time
//! pipeline on every input up to a length. This engine runs that binary and turns its report into
//! verdicts and evidence. `sched_report` is shared with C15 (thread schedules of first use).

use crate::common::*;
use serde_json::{Value, json};
use std::process::Command;
use vcore::report::Ctx;

fn run_ctrt(args: &[&str]) -> Value {
    let exe = "/verif/target/release/ctrt";
    if !std::path::Path::new(exe).exists() {
        machinery("the ctrt binary is missing (run through ./check, which builds it)");
    }
    let o = Command::new(exe).args(args).output().unwrap_or_else(|e| machinery(&format!("cannot run ctrt: {}", e)));
    let out = String::from_utf8_lossy(&o.stdout);
    let line = out.lines().last().unwrap_or("");
    serde_json::from_str(line).unwrap_or_else(|_| machinery(&format!("ctrt {:?} gave no report (status {:?}): {}", args, o.status, String::from_utf8_lossy(&o.stderr).chars().take(400).collect::<String>())))
}

/// Exhaustive schedule exploration of first use of a generated parser (shuttle, depth-first).
pub fn sched_report(ctx: &Ctx) -> Value {
    // free-running smoke rounds (a sample): 8 OS threads, first use at once, fresh process each
    let mut rounds = 0;
    for _ in 0..12 {
        let t = run_ctrt(&["threads"]);
        rounds += 1;
        if t["all_equal_sequential"] != json!(true) {
            ctx.violation("threads", "8 OS threads calling a generated parser for the first time at once did not all get the sequential result", json!({"what": "threads", "round": rounds}));
            break;
        }
    }
    ctx.set("free_running_thread_rounds_sampled", rounds);
    let v = run_ctrt(&["sched"]);
    if v["oncelock_mentions"].as_u64() != Some(2) {
        // the lazy initialisation is no longer a single ::std::sync::OnceLock: the exhaustive
        // schedule exploration cannot bind to the generated code any more. That is not a
        // verdict about the property; it is reported as a loss of coverage.
        ctx.note(&format!("schedule exploration NOT bound to the generated code ({} OnceLock mentions instead of 2); only the sampled free-running rounds apply", v["oncelock_mentions"]));
        return json!({"sched": [], "bound": false});
    }
    for cfg in v["sched"].as_array().cloned().unwrap_or_default() {
        if cfg["schedules"].as_u64().unwrap_or(0) < 100 {
            machinery("schedule exploration degenerated (< 100 schedules)");
        }
        for b in cfg["bad"].as_array().cloned().unwrap_or_default().iter().take(3) {
            ctx.violation("sched", &format!("{} threads calling the generated parser at once: {}", cfg["threads"], b.as_str().unwrap_or("")), json!({"config": cfg["threads"], "what": b}));
        }
    }
    v
}

pub fn run(ctx: Ctx) -> i32 {
    if let Some(case) = load_replay(&ctx) {
        // replay = the comparison is run again (the generated modules are rebuilt from the working
        // tree by ./check) and only the disagreements of the stored case and input are kept
        ctx.replay_only(&["case", "input"], &case);
    }
    let v = run_ctrt(&[]);
    let dis = v["disagreements"].as_array().cloned().unwrap_or_default();
    for d in &dis {
        ctx.violation(
            "c13",
            &format!("generated module '{}' vs run-time pipeline{}: {}", d["case"].as_str().unwrap_or("?"), d.get("input").map(|i| format!(" on input {}", i)).unwrap_or_default(), d["what"].as_str().unwrap_or("?")),
            d.clone(),
        );
    }
    for c in v["inventory_bad"].as_array().cloned().unwrap_or_default() {
        ctx.violation("c13-inventory", &format!("generated parser of case {} contains shared mutable state other than the one OnceLock (static / unsafe / atomics / locks)", c), json!({"case": c}));
    }
    let programs = v["programs"].as_u64().unwrap_or(0);
    let inputs = v["inputs"].as_u64().unwrap_or(0);
    if programs < 20 || inputs < 10_000 || v["inputs_with_errors"].as_u64().unwrap_or(0) == 0 {
        machinery("vacuous exploration (C13)");
    }
    let cov = json!({
        "programs": programs,
        "disagreements_checked": inputs,
        "samples": v["samples"],
        "evaluations": inputs,
        "distinct_nontrivial": v["inputs_with_errors"],
        "rule": "program = one (grammar, lexer, builder settings) case compiled by the real builders + rustc; every input string up to the case's bound is lexed and parsed by the generated module and by the run-time pipeline; non-trivial = inputs with at least one error (recovery runs on both sides)",
        "inputs_compared": inputs,
        "inputs_with_errors": v["inputs_with_errors"],
        "comparisons_cut_short_because_the_two_sides_chose_different_equal_rank_repairs": v["diverged_by_arbitrary_choice"],
        "tier_note": if ctx.quick() { "kinds x recoverers + every single deviation of serialisation / edition / visibility + grammar family with observer actions" } else { "full settings product on two base grammars + grammar family in three yacc kinds" },
    });
    ctx.finish(cov, &["rustc and the quote / syn / prettyplease stack are trusted", "Eco is not supported at compile time by design", "errors are compared one by one while both sides applied the same first repair (which of several equal-rank repairs is applied is documented as arbitrary)"], true)
}

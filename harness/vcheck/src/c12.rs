//! C12 — specification parsers are total: a result or located errors, never a crash or a hang.
//!
//! Three bounded-exhaustive input spaces per entry point: (A) every string up to a length over an
//! alphabet with a representative of every lexical class; (B) every context prefix followed by
//! every short string; (C) every truncation and every single-character deletion / substitution /
//! insertion of seed specifications, plus numeric boundary values. All parsing happens in watched
//! child processes (per-input time limit and memory limit).

use crate::common::*;
use cfgrammar::header::GrmtoolsSectionParser;
use cfgrammar::yacc::ast::ASTWithValidityInfo;
use cfgrammar::yacc::{YaccGrammar, YaccKind, YaccOriginalActionKind};
use cfgrammar::{Span, Spanned};
use lrlex::{DefaultLexerTypes, LRNonStreamingLexerDef, LexerDef};
use lrpar::diagnostics::{DiagnosticFormatter, SpannedDiagnosticFormatter};
use serde_json::{Value, json};
use std::panic::{AssertUnwindSafe, catch_unwind};
use std::str::FromStr;
use std::time::Duration;
use vcore::pool::{WOut, run_resumable, worker_main};
use vcore::report::{Ctx, panic_msg};

/// One representative of every lexical class of the three parsers, including every class of
/// white space they distinguish (blank, tab, LF, CR, VT, FF, NEL, line separator, no-break space,
/// left-to-right mark).
pub const ALPHA: [&str; 39] = [
    "%", "{", "}", "[", "]", "(", ")", ",", ":", "!", "\"", "'", "\\", "/", "*", "|", ";", "<", ">", "-", "+", "a", "0", "9", " ", "\n", "é", "☃", "\t", "\r", "\u{b}", "\u{c}", "\u{85}", "\u{2028}", "\u{a0}", "\u{200e}", "=",
    // letters whose case mapping changes their length in bytes (they match case-insensitive ASCII
    // classes): KELVIN SIGN (3 bytes, lower-case 'k') and LATIN SMALL LETTER LONG S (2 bytes, upper-case 'S')
    "\u{212a}", "\u{17f}",
];

const EPS: [&str; 9] = [
    "yacc:Original(NoAction)",
    "yacc:Original(GenericParseTree)",
    "yacc:Original(UserAction)",
    "yacc:Grmtools",
    "yacc:Eco",
    "yacc:from_str",
    "lex:from_str",
    "header:optional",
    "header:required",
];

fn ep_family(ep: usize) -> &'static str {
    match ep {
        0..=5 => "yacc",
        6 => "lex",
        _ => "header",
    }
}

// ------------------------------------------------------------------------------------------------
// Item spaces (index-addressable, shared by worker and parent)
// ------------------------------------------------------------------------------------------------

fn enum_count(maxlen: usize) -> usize {
    (0..=maxlen).map(|k| ALPHA.len().pow(k as u32)).sum()
}

fn enum_item(mut idx: usize, maxlen: usize) -> String {
    let a = ALPHA.len();
    for k in 0..=maxlen {
        let n = a.pow(k as u32);
        if idx < n {
            let mut s = vec![];
            for _ in 0..k {
                s.push(ALPHA[idx % a]);
                idx /= a;
            }
            s.reverse();
            return s.concat();
        }
        idx -= n;
    }
    unreachable!()
}

fn bounds(s: &str) -> Vec<usize> {
    let mut v: Vec<usize> = s.char_indices().map(|(i, _)| i).collect();
    v.push(s.len());
    v
}

/// mutations of a seed: truncations, deletions, substitutions, insertions
fn mut_count(seed: &str) -> usize {
    let nb = bounds(seed).len(); // chars + 1
    let nc = nb - 1;
    nb + nc + nc * ALPHA.len() + nb * ALPHA.len()
}

fn mut_item(seed: &str, mut idx: usize) -> String {
    let b = bounds(seed);
    let nb = b.len();
    let nc = nb - 1;
    if idx < nb {
        return seed[..b[idx]].to_string();
    }
    idx -= nb;
    if idx < nc {
        return format!("{}{}", &seed[..b[idx]], &seed[b[idx + 1]..]);
    }
    idx -= nc;
    if idx < nc * ALPHA.len() {
        let (p, c) = (idx / ALPHA.len(), idx % ALPHA.len());
        return format!("{}{}{}", &seed[..b[p]], ALPHA[c], &seed[b[p + 1]..]);
    }
    idx -= nc * ALPHA.len();
    let (p, c) = (idx / ALPHA.len(), idx % ALPHA.len());
    format!("{}{}{}", &seed[..b[p]], ALPHA[c], &seed[b[p]..])
}

fn case_len(c: &Value) -> usize {
    match c["kind"].as_str().unwrap() {
        "enum" => enum_count(c["maxlen"].as_u64().unwrap() as usize),
        "mut" => mut_count(c["seed"].as_str().unwrap()),
        "list" => c["list"].as_array().unwrap().len(),
        _ => 0,
    }
}

fn case_item(c: &Value, idx: usize) -> String {
    match c["kind"].as_str().unwrap() {
        "enum" => format!("{}{}", c["prefix"].as_str().unwrap_or(""), enum_item(idx, c["maxlen"].as_u64().unwrap() as usize)),
        "mut" => mut_item(c["seed"].as_str().unwrap(), idx),
        "list" => c["list"][idx].as_str().unwrap().to_string(),
        _ => String::new(),
    }
}

// ------------------------------------------------------------------------------------------------
// The subject: one call of one entry point, and the oracle on its result
// ------------------------------------------------------------------------------------------------

fn span_ok(sp: &Span, s: &str) -> bool {
    sp.start() <= sp.end() && sp.end() <= s.len() && s.is_char_boundary(sp.start()) && s.is_char_boundary(sp.end())
}

fn check_spanned<E: Spanned>(what: &str, e: &E, s: &str, anoms: &mut Vec<(String, String)>) -> bool {
    if e.spans().is_empty() {
        anoms.push(("no-span".into(), format!("{} '{}' carries no span", what, e)));
        return false;
    }
    for sp in e.spans() {
        if !span_ok(sp, s) {
            anoms.push(("bad-span".into(), format!("{} '{}' carries span {:?} but the text has {} bytes / the offsets are not character boundaries", what, e, sp, s.len())));
            return false;
        }
    }
    true
}

/// returns ("ok" | "err", anomalies)
fn run_one(ep: usize, s: &str) -> (bool, Vec<(String, String)>) {
    let mut anoms: Vec<(String, String)> = vec![];
    let path = std::path::Path::new("spec");
    let r = catch_unwind(AssertUnwindSafe(|| -> (bool, Vec<(String, String)>) {
        let mut an: Vec<(String, String)> = vec![];
        let fmt = SpannedDiagnosticFormatter::new(s, path);
        let mut render_yacc = |errs: &[cfgrammar::yacc::YaccGrammarError], an: &mut Vec<(String, String)>| {
            for e in errs {
                if check_spanned("error", e, s, an) {
                    if let Err(p) = catch_unwind(AssertUnwindSafe(|| fmt.format_error(e.clone()).to_string())) {
                        an.push(("render-panic".into(), format!("rendering error '{}' with spans {:?} panicked: {}", e, e.spans(), panic_msg(&p))));
                    }
                }
            }
        };
        match ep {
            0..=4 => {
                let yk = match ep {
                    0 => YaccKind::Original(YaccOriginalActionKind::NoAction),
                    1 => YaccKind::Original(YaccOriginalActionKind::GenericParseTree),
                    2 => YaccKind::Original(YaccOriginalActionKind::UserAction),
                    3 => YaccKind::Grmtools,
                    _ => YaccKind::Eco,
                };
                let av = ASTWithValidityInfo::new(yk, s);
                let ok = av.is_valid();
                if !ok && av.errors().is_empty() {
                    an.push(("empty-errors".into(), "invalid but the error list is empty".into()));
                }
                render_yacc(av.errors(), &mut an);
                if ok {
                    for w in av.ast().warnings() {
                        if check_spanned("warning", &w, s, &mut an) {
                            if let Err(p) = catch_unwind(AssertUnwindSafe(|| fmt.format_warning(w.clone()))) {
                                an.push(("render-panic".into(), format!("rendering warning '{}' panicked: {}", w, panic_msg(&p))));
                            }
                        }
                    }
                }
                match YaccGrammar::<u32>::new_with_storaget(yk, s) {
                    Ok(_) => {
                        if !ok {
                            an.push(("inconsistent".into(), "AST invalid but YaccGrammar::new succeeded".into()));
                        }
                    }
                    Err(es) => {
                        if es.is_empty() {
                            an.push(("empty-errors".into(), "YaccGrammar::new returned an empty error list".into()));
                        }
                        if ok {
                            an.push(("inconsistent".into(), "AST valid but YaccGrammar::new failed".into()));
                        }
                        render_yacc(&es, &mut an);
                    }
                }
                (ok, an)
            }
            5 => {
                let a = ASTWithValidityInfo::from_str(s);
                let ok = match &a {
                    Ok(av) => {
                        if !av.is_valid() && av.errors().is_empty() {
                            an.push(("empty-errors".into(), "invalid but the error list is empty".into()));
                        }
                        render_yacc(av.errors(), &mut an);
                        av.is_valid()
                    }
                    Err(es) => {
                        if es.is_empty() {
                            an.push(("empty-errors".into(), "from_str returned an empty error list".into()));
                        }
                        render_yacc(es, &mut an);
                        false
                    }
                };
                match YaccGrammar::<u32>::from_str(s) {
                    Ok(_) => {}
                    Err(es) => {
                        if es.is_empty() {
                            an.push(("empty-errors".into(), "YaccGrammar::from_str returned an empty error list".into()));
                        }
                        render_yacc(&es, &mut an);
                    }
                }
                (ok, an)
            }
            6 => match LRNonStreamingLexerDef::<DefaultLexerTypes<u32>>::from_str(s) {
                Ok(_) => (true, an),
                Err(es) => {
                    if es.is_empty() {
                        an.push(("empty-errors".into(), "lexer from_str returned an empty error list".into()));
                    }
                    for e in es {
                        if check_spanned("error", &e, s, &mut an) {
                            let d = format!("{} {:?}", e, e.spans());
                            if let Err(p) = catch_unwind(AssertUnwindSafe(|| fmt.format_error(e).to_string())) {
                                an.push(("render-panic".into(), format!("rendering error '{}' panicked: {}", d, panic_msg(&p))));
                            }
                        }
                    }
                    (false, an)
                }
            },
            _ => match GrmtoolsSectionParser::new(s, ep == 8).parse() {
                Ok((_, pos)) => {
                    if pos > s.len() || !s.is_char_boundary(pos) {
                        an.push(("bad-span".into(), format!("section parser returned end position {} for a text of {} bytes", pos, s.len())));
                    }
                    (true, an)
                }
                Err(es) => {
                    if es.is_empty() {
                        an.push(("empty-errors".into(), "section parser returned an empty error list".into()));
                    }
                    for e in &es {
                        if e.locations.is_empty() {
                            an.push(("no-span".into(), format!("header error {:?} carries no location", e.kind)));
                        }
                        for sp in &e.locations {
                            if !span_ok(sp, s) {
                                an.push(("bad-span".into(), format!("header error {:?} carries span {:?} but the text has {} bytes / not on character boundaries", e.kind, sp, s.len())));
                            }
                        }
                    }
                    (false, an)
                }
            },
        }
    }));
    match r {
        Ok((ok, an)) => (ok, an),
        Err(p) => {
            anoms.push(("panic".into(), format!("panicked: {}", panic_msg(&p))));
            (false, anoms)
        }
    }
}

pub fn worker(_args: &[String]) {
    worker_main(|line| {
        let c: Value = match serde_json::from_str(line) {
            Ok(v) => v,
            Err(e) => return json!({"err": format!("{}", e)}).to_string(),
        };
        let ep = c["ep"].as_u64().unwrap() as usize;
        let from = c["from"].as_u64().unwrap_or(0) as usize;
        let to = c["to"].as_u64().map(|x| x as usize).unwrap_or(case_len(&c));
        let base = c["base"].as_u64().unwrap_or(0) as usize;
        let (mut nok, mut nerr) = (0u64, 0u64);
        let mut anoms = vec![];
        let mut nanom = 0u64;
        for idx in from..to {
            let s = case_item(&c, base + idx);
            // a progress mark per item costs a system call; mark every item (items are cheap
            // relative to the limit, and the culprit must be known exactly)
            vcore::pool::progress(&idx.to_string());
            let (ok, an) = run_one(ep, &s);
            if ok {
                nok += 1;
            } else {
                nerr += 1;
            }
            for (k, m) in an {
                nanom += 1;
                if anoms.len() < 60 {
                    anoms.push(json!({"idx": idx, "kind": k, "msg": m}));
                }
            }
        }
        json!({"ok": nok, "errs": nerr, "anoms": anoms, "nanom": nanom}).to_string()
    });
}

// ------------------------------------------------------------------------------------------------
// Parent
// ------------------------------------------------------------------------------------------------

const YACC_PREFIXES: [&str; 22] = [
    "%token ", "%left ", "%nonassoc ", "%epp a ", "%epp a \"", "%avoid_insert ", "%expect ", "%expect-rr ", "%expect-unused ", "%parse-param ", "%parse-generics ", "%actiontype ", "%start ",
    "%implicit_tokens ", "%%\nA:", "%%\nA: 'a' {", "%%\nA: 'a' %prec ", "%%\nA -> ", "%%\nA: \"", "%%\nA: 'a' | ", "%%\nA: ;\n%%\n", "%token a\n%%\nA: a ",
];
const LEX_PREFIXES: [&str; 12] = ["%%\n", "%%\na ", "%%\na '", "%%\na \"", "%%\n<", "%%\n<S>a <", "%s ", "%x ", "%option ", "%s S\n%%\n<S", "%%\n[", "%%\n\\"];
const HEADER_PREFIXES: [&str; 14] = [
    "%grmtools", "%grmtools{", "%grmtools{a", "%grmtools{a:", "%grmtools{a: [", "%grmtools{a: [b", "%grmtools{a: [b,", "%grmtools{a: \"", "%grmtools{a: b::", "%grmtools{a: b(", "%grmtools{a: b(c", "%grmtools{!", "%grmtools{a, ",
    "%grmtools{a: 1",
];

const YACC_SEEDS: [&str; 8] = [
    "%start A\n%token b\n%left '+'\n%right '*'\n%nonassoc '-'\n%%\nA: A '+' A | A '*' A %prec '+' | b;\n",
    "%start S\n%epp a \"an \\\"a\\\"\"\n%avoid_insert 'a'\n%expect 1\n%expect-rr 2\n%%\nS: 'a' S | ;\n",
    "%grmtools{yacckind: Grmtools}\n%start Expr\n%parse-param p: u64\n%%\nExpr -> Result<u64, ()>: Expr '+' Term { Ok($1? + $3?) } | Term { $1 };\nTerm -> Result<u64, ()>: 'INT' { Ok(1) };\n%%\nfn f() {}\n",
    "%grmtools{yacckind: Original(GenericParseTree), recoverer: RecoveryKind::None}\n%%\nA: 'é' /* c */ B // d\n ;\nB: %empty | \"x\";\n",
    "%implicit_tokens ws\n%expect-unused X 'y'\n%token y\n%%\nA: 'a';\nX: ;\n",
    "%actiontype T<'a>\n%parse-generics 'a, T: Clone\n%%\nA: 'a' { f(\"}\", '}', r#\"}\"#) } ;\n",
    // the dangling-else idiom with the precedence declaration of LOW forgotten
    "%start S\n%nonassoc 'else'\n%%\nS: 'if' S Else | 'x';\nElse: %empty %prec LOW | 'else' S;\n",
    // rules written in several pieces; the second piece of E spells its type differently
    "%grmtools{yacckind: Grmtools}\n%start E\n%%\nE -> Result<u64, ()>: E '+' T { $1 } ;\nT -> u64: 'n' { 1 } ;\nE -> Result<u64,()>: T { Ok($1) } ;\nT -> u64: 'm' { 2 } ;\n",
];
const LEX_SEEDS: [&str; 4] = [
    "%%\n[0-9]+ \"INT\"\n\\+ \"+\"\n[\\t ]+ ;\n",
    "%x C\n%s S\n%%\n<INITIAL>/\\* <+C>;\n<C>\\*/ <-C>;\n<C>[^*]+ ;\n<S,C>é 'E'\n\"a b\" \"AB\"\n",
    "%grmtools{case_insensitive, !posix_escapes, size_limit: 100}\n%%\na\\ b 'x'\n. ;\n",
    "%option nounput\n%%\n[a-z]+ 'ID' \n\\\" '\"'\n",
];
const HEADER_SEEDS: [&str; 3] = [
    "%grmtools{yacckind: Original(YaccOriginalActionKind::NoAction), recoverer: RecoveryKind::CPCTPlus, test_files: [\"*.a\", \"b\"], !flag, n: 42}",
    "  %grmtools { a : b :: c , d: \"s\\\"t\", e: [1, [2, x]], }",
    "%grmtools{a: b(c::d)}",
];

fn number_cases() -> Vec<(usize, Vec<String>)> {
    let nums = ["0", "255", "256", "65535", "65536", "4294967295", "4294967296", "18446744073709551615", "18446744073709551616", "99999999999999999999", "340282366920938463463374607431768211456"];
    let mut out = vec![];
    for ep in 0..=5 {
        let mut l = vec![];
        for n in nums {
            l.push(format!("%expect {}\n%%\nA: 'a';", n));
            l.push(format!("%expect-rr {}\n%%\nA: 'a';", n));
            l.push(format!("%grmtools{{yacckind: Grmtools, x: {}}}\n%%\nA -> (): 'a' {{}};", n));
        }
        out.push((ep, l));
    }
    let mut l = vec![];
    for n in nums {
        l.push(format!("%grmtools{{size_limit: {}}}\n%%\na 'a'", n));
        l.push(format!("%grmtools{{dfa_size_limit: {}, nest_limit: {}}}\n%%\na 'a'", n, n));
    }
    out.push((6, l));
    for ep in [7, 8] {
        let mut l = vec![];
        for n in nums {
            l.push(format!("%grmtools{{a: {}}}", n));
            l.push(format!("%grmtools{{a: [{}, {}]}}", n, n));
        }
        out.push((ep, l));
    }
    out
}

fn repo_seeds() -> (Vec<String>, Vec<String>) {
    let mut y = vec![];
    let mut l = vec![];
    for p in ["lrpar/examples/calc_actions/src/calc.y", "lrpar/examples/calc_parsetree/src/calc.y", "lrpar/examples/start_states/src/comment.y", "lrpar/examples/clone_param/src/param.y"] {
        if let Ok(s) = std::fs::read_to_string(format!("/repo/{}", p)) {
            y.push(s);
        }
    }
    for p in ["lrpar/examples/calc_actions/src/calc.l", "lrpar/examples/start_states/src/comment.l", "lrpar/examples/clone_param/src/param.l"] {
        if let Ok(s) = std::fs::read_to_string(format!("/repo/{}", p)) {
            l.push(s);
        }
    }
    (y, l)
}

pub fn run(ctx: Ctx) -> i32 {
    if let Some(case) = load_replay(&ctx) {
        let ep = case["ep"].as_u64().unwrap() as usize;
        let c = json!({"ep": ep, "kind": "list", "list": [case["text"]]});
        let res = run_resumable("c12", &[c.clone()], &[1], 1, Duration::from_secs(10), 1024).unwrap_or_else(|e| machinery(&e));
        judge(&ctx, &c, &res[0]);
        return ctx.finish(json!({"states":1,"transitions":1,"traces_validated_against_impl":1,"samples":[case]}), &[], false);
    }
    let (la, lb) = if ctx.quick() { (3, 2) } else { (5, 3) };
    let mut cases: Vec<Value> = vec![];
    for ep in 0..EPS.len() {
        // (A)
        cases.push(json!({"ep": ep, "kind": "enum", "prefix": "", "maxlen": la, "space": "A"}));
        // (B)
        let prefixes: Vec<&str> = match ep_family(ep) {
            "yacc" => YACC_PREFIXES.iter().cloned().chain(HEADER_PREFIXES.iter().cloned()).collect(),
            "lex" => LEX_PREFIXES.iter().cloned().chain(HEADER_PREFIXES.iter().cloned()).collect(),
            _ => HEADER_PREFIXES.to_vec(),
        };
        for p in prefixes {
            // yacc kinds other than from_str do not read a %grmtools section: skip those prefixes
            if ep <= 4 && p.starts_with("%grmtools") {
                continue;
            }
            cases.push(json!({"ep": ep, "kind": "enum", "prefix": p, "maxlen": lb, "space": "B"}));
        }
    }
    // (C)
    let (ry, rl) = repo_seeds();
    let max_seed = if ctx.quick() { 700 } else { 100_000 };
    for ep in 0..EPS.len() {
        let seeds: Vec<String> = match ep_family(ep) {
            "yacc" => YACC_SEEDS.iter().map(|s| s.to_string()).chain(ry.iter().cloned()).collect(),
            "lex" => LEX_SEEDS.iter().map(|s| s.to_string()).chain(rl.iter().cloned()).collect(),
            _ => HEADER_SEEDS.iter().map(|s| s.to_string()).collect(),
        };
        for s in seeds {
            if s.len() > max_seed {
                continue;
            }
            // kinds that need a header get it from the seed itself; plain kinds get seeds without
            if ep <= 4 && s.starts_with("%grmtools") {
                let body = s.splitn(2, '\n').nth(1).unwrap_or("").to_string();
                cases.push(json!({"ep": ep, "kind": "mut", "seed": body, "space": "C"}));
            } else {
                cases.push(json!({"ep": ep, "kind": "mut", "seed": s, "space": "C"}));
            }
        }
    }
    for (ep, list) in number_cases() {
        cases.push(json!({"ep": ep, "kind": "list", "list": list, "space": "C-numbers"}));
    }
    // split big cases into slices so that 16 workers stay busy
    let mut sliced: Vec<Value> = vec![];
    let mut lens: Vec<usize> = vec![];
    for c in &cases {
        let n = case_len(c);
        sliced.push(c.clone());
        lens.push(n);
    }
    // run: the resumable pool already splits work per case; large enum cases are cut into chunks
    let mut work: Vec<Value> = vec![];
    let mut wlens: Vec<(usize, usize)> = vec![]; // (from, to) absolute
    for (c, n) in sliced.iter().zip(lens.iter()) {
        let chunk = 40_000;
        let mut f = 0;
        while f < *n {
            let t = (f + chunk).min(*n);
            let mut c2 = c.clone();
            c2["base"] = json!(f);
            work.push(c2);
            wlens.push((f, t));
            f = t;
        }
    }
    // run_resumable addresses items 0..len per case; give every chunk its absolute range through
    // from/to directly
    let total_items: usize = lens.iter().sum();
    let res = run_chunks(&work, &wlens);
    let mut nok = 0u64;
    let mut nerr = 0u64;
    for (c, r) in work.iter().zip(res.iter()) {
        let (a, b) = judge(&ctx, c, r);
        nok += a;
        nerr += b;
    }
    if nok == 0 || nerr == 0 {
        machinery("vacuous exploration (C12)");
    }
    ctx.sample(json!({"entry_point": EPS[5], "text": case_item(&cases[0], 1234.min(lens[0] - 1))}));
    ctx.sample(json!({"entry_point": EPS[7], "text": "%grmtools{a: [", "space": "B: context prefix + every string up to the bound"}));
    ctx.sample(json!({"entry_point": EPS[6], "text": mut_item(LEX_SEEDS[1], 300), "space": "C: single-character mutation of a seed"}));
    let cov = json!({
        "states": total_items,
        "transitions": total_items,
        "traces_validated_against_impl": nok + nerr,
        "evaluations": total_items,
        "distinct_nontrivial": nok,
        "rule": "input strings per entry point: (A) all strings over a 37-symbol alphabet up to the bound, (B) context prefix + all short strings, (C) all truncations and single-character edits of seed specifications + numeric boundary values; non-trivial = inputs the parser accepted",
        "entry_points": EPS,
        "alphabet": ALPHA.to_vec(),
        "max_len_A": la,
        "max_len_B": lb,
        "inputs_accepted": nok,
        "inputs_rejected_with_errors": nerr,
        "cases": cases.len(),
    });
    ctx.finish(cov, &["every parse runs in a watched child process: 2 s per input (a timeout is confirmed alone with 6 s), 1 GiB address space; exploration stops after 48 hangs/crashes (then the check has failed anyway)", "rendering = lrpar::diagnostics::SpannedDiagnosticFormatter::format_error / format_warning"], true)
}

type ChunkRes = (Vec<String>, Vec<(usize, WOut)>);

fn run_chunks(work: &[Value], ranges: &[(usize, usize)]) -> Vec<ChunkRes> {
    // every chunk carries "base"; the worker addresses item base + idx for idx in from..to
    let lens: Vec<usize> = ranges.iter().map(|(f, t)| t - f).collect();
    run_resumable("c12", work, &lens, 16, Duration::from_secs(2), 1024).unwrap_or_else(|e| machinery(&e))
}

/// Interpret the outputs of one chunk. Returns (accepted, rejected).
fn judge(ctx: &Ctx, c: &Value, r: &ChunkRes) -> (u64, u64) {
    let ep = c["ep"].as_u64().unwrap() as usize;
    let base = c["base"].as_u64().unwrap_or(0) as usize;
    let text_of = |idx: usize| case_item(c, base + idx);
    let (mut nok, mut nerr) = (0, 0);
    for l in &r.0 {
        let v: Value = serde_json::from_str(l).unwrap_or_else(|_| machinery("unparsable c12 worker output"));
        if v.get("err").is_some() {
            machinery(&format!("c12 worker: {}", v["err"]));
        }
        nok += v["ok"].as_u64().unwrap_or(0);
        nerr += v["errs"].as_u64().unwrap_or(0);
        for a in v["anoms"].as_array().cloned().unwrap_or_default() {
            let idx = a["idx"].as_u64().unwrap() as usize;
            let text = text_of(idx);
            ctx.violation(
                &format!("c12-{}", a["kind"].as_str().unwrap_or("?")),
                &format!("{} on {:?}: {}", EPS[ep], text, a["msg"].as_str().unwrap_or("?")),
                json!({"ep": ep, "entry_point": EPS[ep], "text": text}),
            );
        }
    }
    for (idx, why) in &r.1 {
        let text = text_of(*idx);
        // confirm alone with a longer limit before calling it a hang
        let c1 = json!({"ep": ep, "kind": "list", "list": [text]});
        let again = run_resumable("c12", &[c1], &[1], 1, Duration::from_secs(6), 1024).unwrap_or_else(|e| machinery(&e));
        if again[0].1.is_empty() {
            ctx.count("timeouts_not_confirmed", 1);
            continue;
        }
        let kind = match (&again[0].1[0].1, why) {
            (WOut::Timeout, _) => "hang",
            _ => "crash",
        };
        ctx.violation(
            &format!("c12-{}", kind),
            &format!("{} on {:?}: {}", EPS[ep], text, if kind == "hang" { "does not return (6 s, confirmed alone)" } else { "kills the process (stack overflow / memory limit)" }),
            json!({"ep": ep, "entry_point": EPS[ep], "text": text}),
        );
        nerr += 1;
    }
    (nok, nerr)
}

//! C09 — the lexer does longest match, earliest rule on ties, start states; it tiles the input.
//!
//! Lex specifications (ordered rule lists over a regex menu, named / skip rules, inclusive and
//! exclusive start states with every prefix / target operation, regex flags) x all input strings
//! up to a length incl. multi-byte text, against a direct maximal-munch reference lexer over the
//! `regex` crate with a plain state stack; plus every id map for `set_rule_ids`.

use crate::common::*;
use lrlex::{DefaultLexerTypes, LRNonStreamingLexerDef, LexerDef};
use lrpar::{LexError, Lexeme, Lexer};
use rayon::prelude::*;
use regex::{Regex, RegexBuilder};
use serde_json::json;
use std::collections::{HashMap, HashSet};
use vcore::report::Ctx;

#[derive(Clone, Debug, PartialEq)]
pub enum Target {
    None,
    Replace(usize),
    Push(usize),
    Pop(usize),
}

#[derive(Clone, Debug)]
pub struct LRule {
    pub re: String,
    pub name: Option<String>,
    pub states: Vec<usize>, // ids; empty = unqualified
    pub target: Target,
}

#[derive(Clone, Debug)]
pub struct LSpec {
    /// declared states after INITIAL (id 0): (name, exclusive)
    pub states: Vec<(String, bool)>,
    pub rules: Vec<LRule>,
    pub case_insensitive: bool,
    pub dot_matches_new_line: bool,
    pub multi_line: bool,
}

impl LSpec {
    fn state_name(&self, id: usize) -> String {
        if id == 0 { "INITIAL".to_string() } else { self.states[id - 1].0.clone() }
    }
    pub fn to_lex(&self) -> String {
        let mut s = String::new();
        let mut flags = vec![];
        if self.case_insensitive {
            flags.push("case_insensitive");
        }
        if !self.dot_matches_new_line {
            flags.push("!dot_matches_new_line");
        }
        if !self.multi_line {
            flags.push("!multi_line");
        }
        if !flags.is_empty() {
            s.push_str(&format!("%grmtools{{{}}}\n", flags.join(", ")));
        }
        for (n, x) in &self.states {
            s.push_str(&format!("{} {}\n", if *x { "%x" } else { "%s" }, n));
        }
        s.push_str("%%\n");
        for r in &self.rules {
            if !r.states.is_empty() {
                let names: Vec<String> = r.states.iter().map(|i| self.state_name(*i)).collect();
                s.push_str(&format!("<{}>", names.join(",")));
            }
            s.push_str(&r.re);
            s.push(' ');
            match &r.target {
                Target::None => {}
                Target::Replace(t) => s.push_str(&format!("<{}>", self.state_name(*t))),
                Target::Push(t) => s.push_str(&format!("<+{}>", self.state_name(*t))),
                Target::Pop(t) => s.push_str(&format!("<-{}>", self.state_name(*t))),
            }
            match &r.name {
                Some(n) => s.push_str(&format!("'{}'", n)),
                None => s.push(';'),
            }
            s.push('\n');
        }
        s
    }
    fn exclusive(&self, id: usize) -> bool {
        id != 0 && self.states[id - 1].1
    }
    pub fn to_json(&self) -> serde_json::Value {
        json!({
            "states": self.states.iter().map(|(n, x)| json!([n, x])).collect::<Vec<_>>(),
            "rules": self.rules.iter().map(|r| json!({
                "re": r.re, "name": r.name, "states": r.states,
                "target": match r.target { Target::None => json!(null), Target::Replace(t) => json!(["replace", t]), Target::Push(t) => json!(["push", t]), Target::Pop(t) => json!(["pop", t]) },
            })).collect::<Vec<_>>(),
            "case_insensitive": self.case_insensitive, "dot_matches_new_line": self.dot_matches_new_line, "multi_line": self.multi_line,
        })
    }
    pub fn from_json(v: &serde_json::Value) -> Option<LSpec> {
        let states = v["states"].as_array()?.iter().map(|s| Some((s[0].as_str()?.to_string(), s[1].as_bool()?))).collect::<Option<Vec<_>>>()?;
        let rules = v["rules"]
            .as_array()?
            .iter()
            .map(|r| {
                let target = match r["target"][0].as_str() {
                    None => Target::None,
                    Some("replace") => Target::Replace(r["target"][1].as_u64()? as usize),
                    Some("push") => Target::Push(r["target"][1].as_u64()? as usize),
                    Some(_) => Target::Pop(r["target"][1].as_u64()? as usize),
                };
                Some(LRule { re: r["re"].as_str()?.to_string(), name: r["name"].as_str().map(|x| x.to_string()), states: r["states"].as_array()?.iter().map(|x| x.as_u64().unwrap_or(0) as usize).collect(), target })
            })
            .collect::<Option<Vec<_>>>()?;
        Some(LSpec { states, rules, case_insensitive: v["case_insensitive"].as_bool()?, dot_matches_new_line: v["dot_matches_new_line"].as_bool()?, multi_line: v["multi_line"].as_bool()? })
    }
}

type Tok = Result<(u32, usize, usize), usize>; // Ok(id, start, len) | Err(position)

pub fn ref_lex(spec: &LSpec, res: &[Regex], ids: &[Option<u32>], input: &str) -> Vec<Tok> {
    let mut out = vec![];
    let mut stack: Vec<usize> = vec![0];
    let mut i = 0;
    while i < input.len() {
        let cur = *stack.last().unwrap();
        let mut best: Option<(usize, usize)> = None;
        for (ridx, r) in spec.rules.iter().enumerate() {
            let active = if r.states.is_empty() { !spec.exclusive(cur) } else { r.states.contains(&cur) };
            if !active {
                continue;
            }
            if let Some(m) = res[ridx].find(&input[i..]) {
                let len = m.end();
                if len > 0 && best.map(|(l, _)| len > l).unwrap_or(true) {
                    best = Some((len, ridx));
                }
            }
        }
        let Some((len, ridx)) = best else {
            out.push(Err(i));
            return out;
        };
        let r = &spec.rules[ridx];
        if r.name.is_some() {
            match ids[ridx] {
                Some(id) => out.push(Ok((id, i, len))),
                None => {
                    out.push(Err(i));
                    return out;
                }
            }
        }
        match r.target {
            Target::None => {}
            Target::Replace(t) => stack = vec![t],
            Target::Push(t) => stack.push(t),
            Target::Pop(_) => {
                stack.pop();
                if stack.is_empty() {
                    stack.push(0);
                }
            }
        }
        i += len;
    }
    out
}

fn compile(spec: &LSpec) -> Option<Vec<Regex>> {
    spec.rules
        .iter()
        .map(|r| {
            RegexBuilder::new(&format!("\\A(?:{})", r.re))
                .octal(true)
                .multi_line(spec.multi_line)
                .dot_matches_new_line(spec.dot_matches_new_line)
                .case_insensitive(spec.case_insensitive)
                .build()
                .ok()
        })
        .collect()
}

fn strings(alpha: &[&str], n: usize) -> Vec<String> {
    let mut out = vec![String::new()];
    let mut layer = vec![String::new()];
    for _ in 0..n {
        let mut next = vec![];
        for s in &layer {
            for c in alpha {
                next.push(format!("{}{}", s, c));
            }
        }
        out.extend(next.iter().cloned());
        layer = next;
    }
    out
}

#[derive(Default, Clone)]
struct Stats {
    specs: u64,
    runs: u64,
    lexemes: u64,
    ties: u64,
    errors: u64,
    pops_to_empty: u64,
    idmaps: u64,
}
impl Stats {
    fn merge(mut self, o: Stats) -> Stats {
        self.specs += o.specs;
        self.runs += o.runs;
        self.lexemes += o.lexemes;
        self.ties += o.ties;
        self.errors += o.errors;
        self.pops_to_empty += o.pops_to_empty;
        self.idmaps += o.idmaps;
        self
    }
}

fn real_lex(ld: &LRNonStreamingLexerDef<DefaultLexerTypes<u32>>, input: &str) -> Vec<Tok> {
    ld.lexer(input)
        .iter()
        .map(|r| match r {
            Ok(l) => Ok((l.tok_id(), l.span().start(), l.span().len())),
            Err(e) => Err(if e.span().is_empty() { e.span().start() } else { usize::MAX }),
        })
        .collect()
}

fn esc(s: &str) -> String {
    s.replace('\n', "\\n")
}

fn check_spec(ctx: &Ctx, spec: &LSpec, inputs: &[String], idmaps: bool, st: &mut Stats) {
    ctx.guard(
        &format!("building / running the lexer of\n{}", spec.to_lex()),
        || json!({"spec": spec.to_lex(), "input": ""}),
        (),
        || check_spec_inner(ctx, spec, inputs, idmaps, st),
    )
}

fn check_spec_inner(ctx: &Ctx, spec: &LSpec, inputs: &[String], idmaps: bool, st: &mut Stats) {
    st.specs += 1;
    let text = spec.to_lex();
    let case = |input: &str| json!({"spec": text, "input": input, "lspec": spec.to_json(), "idmaps": idmaps});
    let Some(res) = compile(spec) else { return };
    let mut ld = match LRNonStreamingLexerDef::<DefaultLexerTypes<u32>>::from_str(&text) {
        Ok(ld) => ld,
        Err(e) => {
            ctx.violation("c09-build", &format!("specification rejected: {:?}\n{}", e.iter().map(|x| x.to_string()).collect::<Vec<_>>(), text), case(""));
            return;
        }
    };
    // default ids: whatever from_str assigned; read them back by name
    let names: Vec<Option<String>> = spec.rules.iter().map(|r| r.name.clone()).collect();
    let mut maps: Vec<Option<HashMap<String, u32>>> = vec![None];
    if idmaps {
        // every map over subsets of the spec's names plus one foreign name
        let mut uniq: Vec<String> = names.iter().flatten().cloned().collect();
        uniq.sort();
        uniq.dedup();
        uniq.push("FOREIGN".to_string());
        // ids far from the rule indices (100, 101, ..) and ids that coincide with rule indices
        // (0, 1, ..: a rule without a name keeps the id it was given at construction)
        for base in [100u32, 0] {
            for mask in 0u32..(1 << uniq.len()) {
                let m: HashMap<String, u32> = uniq.iter().enumerate().filter(|(i, _)| mask & (1 << i) != 0).map(|(i, n)| (n.clone(), base + i as u32)).collect();
                maps.push(Some(m));
            }
        }
    }
    for m in &maps {
        let ids: Vec<Option<u32>> = match m {
            None => {
                // ids assigned by from_str: one per rule, looked up through the public API
                spec.rules
                    .iter()
                    .enumerate()
                    .map(|(i, r)| r.name.as_ref().and_then(|_| ld.get_rule(i).and_then(|x| x.tok_id())))
                    .collect()
            }
            Some(m) => {
                st.idmaps += 1;
                let hm: HashMap<&str, u32> = m.iter().map(|(k, v)| (k.as_str(), *v)).collect();
                let (a, b) = ld.set_rule_ids(&hm);
                let a: Option<HashSet<String>> = a.map(|s| s.iter().map(|x| x.to_string()).collect());
                let b: Option<HashSet<String>> = b.map(|s| s.iter().map(|x| x.to_string()).collect());
                let rule_names: HashSet<String> = names.iter().flatten().cloned().collect();
                let keys: HashSet<String> = m.keys().cloned().collect();
                let exp_a: HashSet<String> = keys.difference(&rule_names).cloned().collect(); // keys without a rule
                let exp_b: HashSet<String> = rule_names.difference(&keys).cloned().collect(); // rules without a key
                let norm = |x: HashSet<String>| if x.is_empty() { None } else { Some(x) };
                if a != norm(exp_a.clone()) || b != norm(exp_b.clone()) {
                    ctx.violation(
                        "c09-idsync",
                        &format!("set_rule_ids with keys {:?} on rules {:?} returned ({:?}, {:?}), expected ({:?}, {:?})", keys, rule_names, a, b, norm(exp_a), norm(exp_b)),
                        json!({"spec": text, "keys": keys.iter().collect::<Vec<_>>(), "input": "", "lspec": spec.to_json(), "idmaps": true}),
                    );
                }
                names.iter().map(|n| n.as_ref().and_then(|n| m.get(n).cloned())).collect()
            }
        };
        for input in inputs {
            st.runs += 1;
            let exp = ref_lex(spec, &res, &ids, input);
            let got = real_lex(&ld, input);
            st.lexemes += exp.iter().filter(|x| x.is_ok()).count() as u64;
            if matches!(exp.last(), Some(Err(_))) {
                st.errors += 1;
            }
            if got != exp {
                ctx.violation(
                    "c09-lexemes",
                    &format!("input \"{}\" lexes to {:?} but longest-match / earliest-rule / start-state semantics give {:?} for\n{}", esc(input), got, exp, text),
                    case(input),
                );
            }
        }
        if m.is_none() && !idmaps {
            break;
        }
    }
}

fn plain_specs(menu: &[&str], max_rules: usize, flags: bool) -> Vec<LSpec> {
    // every ordered list of <= max_rules (regex, named?) pairs
    let mut opts: Vec<(String, bool)> = vec![];
    for r in menu {
        opts.push((r.to_string(), true));
        opts.push((r.to_string(), false));
    }
    let mut lists: Vec<Vec<(String, bool)>> = vec![vec![]];
    let mut all: Vec<Vec<(String, bool)>> = vec![];
    for _ in 0..max_rules {
        let mut next = vec![];
        for l in &lists {
            for o in &opts {
                let mut l2 = l.clone();
                l2.push(o.clone());
                next.push(l2);
            }
        }
        all.extend(next.iter().cloned());
        lists = next;
    }
    let mut out = vec![];
    let flagsets: Vec<(bool, bool, bool)> = if flags {
        let mut v = vec![];
        for ci in [false, true] {
            for d in [true, false] {
                for m in [true, false] {
                    v.push((ci, d, m));
                }
            }
        }
        v
    } else {
        vec![(false, true, true)]
    };
    for l in all {
        for (ci, d, m) in &flagsets {
            out.push(LSpec {
                states: vec![],
                rules: l
                    .iter()
                    .enumerate()
                    .map(|(i, (re, named))| LRule { re: re.clone(), name: if *named { Some(format!("T{}", i)) } else { None }, states: vec![], target: Target::None })
                    .collect(),
                case_insensitive: *ci,
                dot_matches_new_line: *d,
                multi_line: *m,
            });
        }
    }
    out
}

fn state_specs(max_rules: usize) -> Vec<LSpec> {
    // states: S (inclusive, id 1), X (exclusive, id 2)
    let prefixes: Vec<Vec<usize>> = vec![vec![], vec![1], vec![2], vec![1, 2], vec![0]];
    let targets = vec![Target::None, Target::Replace(1), Target::Push(1), Target::Push(2), Target::Pop(1), Target::Pop(2), Target::Replace(2), Target::Replace(0)];
    let mut opts: Vec<LRule> = vec![];
    for re in ["a", "b", "ab"] {
        for p in &prefixes {
            for t in &targets {
                for named in [true, false] {
                    opts.push(LRule { re: re.to_string(), name: if named { Some("N".to_string()) } else { None }, states: p.clone(), target: t.clone() });
                }
            }
        }
    }
    let mut lists: Vec<Vec<LRule>> = vec![vec![]];
    let mut all = vec![];
    for _ in 0..max_rules {
        let mut next = vec![];
        for l in &lists {
            for o in &opts {
                let mut l2 = l.clone();
                l2.push(o.clone());
                next.push(l2);
            }
        }
        all.extend(next.iter().cloned());
        lists = next;
    }
    all.into_iter()
        .map(|mut l| {
            for (i, r) in l.iter_mut().enumerate() {
                if r.name.is_some() {
                    r.name = Some(format!("T{}", i));
                }
            }
            LSpec { states: vec![("S".to_string(), false), ("X".to_string(), true)], rules: l, case_insensitive: false, dot_matches_new_line: true, multi_line: true }
        })
        .collect()
}

/// Specifications that exercise sequences of stack operations: `n` named rules, rule k matching
/// the single letter k, every start-state prefix x every target operation (incl. push / replace
/// of INITIAL itself, so that the run-length encoded bottom entry gets a count above one).
fn stack_specs(n: usize, rich: bool) -> Vec<LSpec> {
    let prefixes: Vec<Vec<usize>> = if rich { vec![vec![], vec![1], vec![2], vec![1, 2], vec![0]] } else { vec![vec![], vec![2]] };
    let targets = if rich {
        vec![Target::None, Target::Replace(0), Target::Replace(1), Target::Replace(2), Target::Push(0), Target::Push(1), Target::Push(2), Target::Pop(1), Target::Pop(2)]
    } else {
        vec![Target::None, Target::Replace(2), Target::Push(0), Target::Push(1), Target::Pop(1)]
    };
    let letters = ["a", "b", "c", "d"];
    let mut lists: Vec<Vec<LRule>> = vec![vec![]];
    for k in 0..n {
        let mut next = vec![];
        for l in &lists {
            for p in &prefixes {
                for t in &targets {
                    let mut l2 = l.clone();
                    l2.push(LRule { re: letters[k].to_string(), name: Some(format!("T{}", k)), states: p.clone(), target: t.clone() });
                    next.push(l2);
                }
            }
        }
        lists = next;
    }
    lists
        .into_iter()
        .map(|l| LSpec { states: vec![("S".to_string(), false), ("X".to_string(), true)], rules: l, case_insensitive: false, dot_matches_new_line: true, multi_line: true })
        .collect()
}

pub fn run(ctx: Ctx) -> i32 {
    if let Some(case) = load_replay(&ctx) {
        // the abstract specification is rebuilt from the replay file and the same comparison is
        // made on the stored input (with every id map if the case was checked with id maps)
        let Some(spec) = LSpec::from_json(&case["lspec"]) else { machinery("replay: no lspec in the case") };
        let input = case["input"].as_str().unwrap_or("").to_string();
        let mut st = Stats::default();
        check_spec(&ctx, &spec, &[input], case["idmaps"].as_bool().unwrap_or(false), &mut st);
        return ctx.finish(json!({"states":1,"transitions":1,"traces_validated_against_impl":1,"samples":[case]}), &[], false);
    }
    let menu = ["a", "b", "ab", "a+", "[ab]", "a|ab", "é", ".", "a*b"];
    let (nplain, ninp, nstate_rules, nstate_inp) = if ctx.quick() { (3, 5, 2, 5) } else { (3, 6, 3, 4) };
    let inputs = strings(&["a", "b", "é", "\n"], ninp);
    let mut total = Stats::default();
    // 1. plain ordered rule lists
    let specs = plain_specs(&menu, nplain, false);
    total = total.merge(
        specs
            .par_iter()
            .map(|s| {
                let mut st = Stats::default();
                check_spec(&ctx, s, &inputs, s.rules.len() <= 2 && s.rules.iter().filter(|r| r.name.is_some()).count() >= 1, &mut st);
                st
            })
            .reduce(Stats::default, |a, b| a.merge(b)),
    );
    let n1 = specs.len();
    // 2. flags
    let fspecs = plain_specs(&["a", ".", "^b", "a$", "B"], 2, true);
    let finputs = strings(&["a", "A", "b", "\n"], if ctx.quick() { 4 } else { 5 });
    total = total.merge(
        fspecs
            .par_iter()
            .map(|s| {
                let mut st = Stats::default();
                check_spec(&ctx, s, &finputs, false, &mut st);
                st
            })
            .reduce(Stats::default, |a, b| a.merge(b)),
    );
    // 2b. case folding: letters whose case-insensitive matches include characters with a longer
    // UTF-8 encoding (k ~ KELVIN SIGN, s ~ LONG S): longest match is measured in the input, not in
    // the pattern
    let cspecs: Vec<LSpec> = plain_specs(&["k", "ks", "[a-z]", "s"], 2, true).into_iter().filter(|s| s.dot_matches_new_line && s.multi_line).collect();
    let cinputs = strings(&["k", "s", "\u{212a}", "\u{17f}", "a"], if ctx.quick() { 3 } else { 4 });
    total = total.merge(
        cspecs
            .par_iter()
            .map(|s| {
                let mut st = Stats::default();
                check_spec(&ctx, s, &cinputs, false, &mut st);
                st
            })
            .reduce(Stats::default, |a, b| a.merge(b)),
    );
    // 3. start states
    let sspecs = state_specs(nstate_rules);
    let sinputs = strings(&["a", "b"], nstate_inp);
    total = total.merge(
        sspecs
            .par_iter()
            .map(|s| {
                let mut st = Stats::default();
                check_spec(&ctx, s, &sinputs, false, &mut st);
                st
            })
            .reduce(Stats::default, |a, b| a.merge(b)),
    );
    // 4. sequences of stack operations
    let (kspecs, kinputs): (Vec<LSpec>, Vec<String>) = if ctx.quick() { (stack_specs(3, true), strings(&["a", "b", "c"], 5)) } else { (stack_specs(3, true).into_iter().chain(stack_specs(4, false)).collect(), strings(&["a", "b", "c", "d"], 6)) };
    total = total.merge(
        kspecs
            .par_iter()
            .map(|s| {
                let mut st = Stats::default();
                check_spec(&ctx, s, &kinputs, false, &mut st);
                st
            })
            .reduce(Stats::default, |a, b| a.merge(b)),
    );
    if total.lexemes == 0 || total.errors == 0 || total.idmaps == 0 {
        machinery("vacuous exploration (C09)");
    }
    ctx.sample(json!({"spec": specs[specs.len() / 2].to_lex(), "inputs": "all strings over {a, b, é, LF} up to the bound"}));
    ctx.sample(json!({"spec": sspecs[sspecs.len() / 3].to_lex(), "inputs": "all strings over {a, b} up to the bound"}));
    ctx.sample(json!({"spec": fspecs[fspecs.len() / 2].to_lex(), "inputs": "all strings over {a, A, b, LF} up to the bound"}));
    let cov = json!({
        "states": total.specs,
        "transitions": total.lexemes + total.errors,
        "traces_validated_against_impl": total.runs,
        "evaluations": total.runs,
        "distinct_nontrivial": total.errors,
        "rule": "(lex specification, id map, input) -> one lexer run compared lexeme by lexeme with the reference; non-trivial = runs that end in a lexing error",
        "plain_specs": n1,
        "flag_specs": fspecs.len(),
        "start_state_specs": sspecs.len(),
        "stack_operation_specs": kspecs.len(),
        "runs": total.runs,
        "lexemes_compared": total.lexemes,
        "runs_ending_in_error": total.errors,
        "id_maps": total.idmaps,
    });
    ctx.finish(cov, &["what a regular expression denotes is the regex crate's business (same engine on both sides); the reference owns rule selection, tie breaking, start-state activation and stack operations", "id-sync result order as pinned by the repository's test: (keys without a rule, rule names without a key)"], true)
}

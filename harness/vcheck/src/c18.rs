//! C18 — an incremental compile-time build always ends in the state a clean build would.
//!
//! Breadth-first search over the *real* builders (one child process per build step, as under
//! cargo). State = grammar version, lexer version, builder settings, contents and (logical)
//! modification times of the generated files. Events = edit the grammar / the lexer (also "in the
//! same tick as the last output"), change one builder option, build (parser then lexer, or the
//! lexer builder driving the parser builder). After every build the generated files are compared
//! with a clean build of the same sources and settings into an empty directory.

use crate::common::*;
use rayon::prelude::*;
use serde_json::{Value, json};
use std::collections::{BTreeMap, HashMap};
use std::path::{Path, PathBuf};
use std::process::Command;
use std::sync::Mutex;
use vcore::report::Ctx;

const BASE_GRAMMARS: [(&str, &str); 6] = [
    ("g0", "%grmtools{yacckind: Original(GenericParseTree)}\n%start S\n%%\nS: 'a' S | 'b';\n"),
    ("g1", "%grmtools{yacckind: Original(GenericParseTree)}\n%start S\n%%\nS: 'a' S | 'b' | 'c';\n"),
    ("g1p", "%grmtools{yacckind: Original(GenericParseTree)}\n%start S\n%%\nS: S 'a' | 'b';\n"),
    ("gC", "%grmtools{yacckind: Original(GenericParseTree)}\n%start S\n%%\nS: S S | 'a' | 'b';\n"),
    ("gX", "%grmtools{yacckind: Original(GenericParseTree)}\n%start S\n%%\nS: 'a' S | ;;; 'b'\n"),
    ("gW", "%grmtools{yacckind: Original(GenericParseTree)}\n%start S\n%token z\n%%\nS: 'a' S | 'b';\n"),
];
const BASE_LEXERS: [(&str, &str); 4] = [
    ("l0", "%%\na 'a'\nb 'b'\nc 'c'\nz 'z'\n[ ]+ ;\n"),
    ("l1", "%%\na+ 'a'\nb 'b'\nc 'c'\nz 'z'\n[ \\n]+ ;\n"),
    ("lX", "%%\na 'a'\n(b 'b'\n"),
    ("lM", "%%\na 'a'\nc 'c'\nz 'z'\n"),
];
/// option name -> values; the first is the default
const OPTIONS: [(&str, &[&str]); 11] = [
    ("recoverer", &["cpctplus", "none"]),
    ("visibility", &["private", "pub", "pub(crate)"]),
    ("edition", &["2021", "2018"]),
    ("serialisation", &["var", "fixed"]),
    ("error_on_conflicts", &["true", "false"]),
    ("warnings_are_errors", &["true", "false"]),
    ("show_warnings", &["true", "false"]),
    ("mod_name", &["", "custom_y"]),
    ("lex_visibility", &["private", "pub"]),
    ("lex_mod_name", &["", "custom_l"]),
    ("lex_case_insensitive", &["", "true"]),
];

/// Number of grammar / lexer versions that take part in the breadth-first search and in phase 2.
const N_G: usize = 6;
const N_L: usize = 4;
const N_LARGE_TOKENS: usize = 220;

/// The versions above plus one large pair (index N_G / N_L): a grammar with 220 tokens of 14
/// characters each and its lexer. The settings string that the parser builder records in the
/// generated file (it lists the token map) is then far longer than any fixed-size buffer.
static GRAMMARS: std::sync::LazyLock<Vec<(&'static str, String)>> = std::sync::LazyLock::new(|| {
    let mut v: Vec<(&'static str, String)> = BASE_GRAMMARS.iter().map(|(n, t)| (*n, t.to_string())).collect();
    let mut t = String::from("%grmtools{yacckind: Original(GenericParseTree)}\n%start S\n%%\nS: 'a' S | 'b' | T;\nT:");
    for i in 0..N_LARGE_TOKENS {
        t.push_str(&format!("{} 'TOKEN_{:08}'", if i == 0 { "" } else { " |" }, i));
    }
    t.push_str(";\n");
    v.push(("gL", t));
    v
});
static LEXERS: std::sync::LazyLock<Vec<(&'static str, String)>> = std::sync::LazyLock::new(|| {
    let mut v: Vec<(&'static str, String)> = BASE_LEXERS.iter().map(|(n, t)| (*n, t.to_string())).collect();
    let mut t = String::from("%%\na 'a'\nb 'b'\n");
    for i in 0..N_LARGE_TOKENS {
        t.push_str(&format!("t{:08} 'TOKEN_{:08}'\n", i, i));
    }
    t.push_str("[ ]+ ;\n");
    v.push(("lL", t));
    v
});

type Settings = Vec<usize>; // index into OPTIONS[i].1

#[derive(Clone, Debug, PartialEq, Eq, Hash, PartialOrd, Ord)]
struct FileState {
    content: Vec<u8>,
    mtime: i64,
}

#[derive(Clone, Debug)]
struct Snap {
    g: usize,
    l: usize,
    settings: Settings,
    files: BTreeMap<String, FileState>,
    clock: i64,
    /// configuration (g, parser settings) of the last successful parser build, while nothing
    /// relevant was touched since
    parser_built_for: Option<(usize, Vec<usize>)>,
    history: Vec<String>,
}

const T0: i64 = 1_500_000_000;

fn settings_json(s: &Settings) -> Value {
    let mut m = serde_json::Map::new();
    for (i, (name, vals)) in OPTIONS.iter().enumerate() {
        let v = vals[s[i]];
        if v.is_empty() {
            continue;
        }
        match *name {
            "error_on_conflicts" | "warnings_are_errors" | "show_warnings" | "lex_case_insensitive" => {
                m.insert(name.to_string(), json!(v == "true"));
            }
            _ => {
                m.insert(name.to_string(), json!(v));
            }
        }
    }
    Value::Object(m)
}

fn parser_settings(s: &Settings) -> Vec<usize> {
    s[..8].to_vec()
}

fn blank(content: &[u8]) -> Vec<u8> {
    // the only run-dependent parts are the build timestamps; they are constants of the harness
    // binary, but blank them anyway so that a rebuilt harness does not matter within one run
    let s = String::from_utf8_lossy(content).to_string();
    let re = regex::Regex::new(r#"(?s)(BUILD_TIME\s*=\s*)"[^"]*""#).unwrap();
    let s = re.replace_all(&s, "$1\"\"").to_string();
    let re2 = regex::Regex::new(r#"// lrlex build time: "[^"]*""#).unwrap();
    re2.replace_all(&s, "// lrlex build time: \"\"").to_string().into_bytes()
}

fn write_files(dir: &Path, snap: &Snap) {
    std::fs::create_dir_all(dir).unwrap();
    for (name, f) in &snap.files {
        let p = dir.join(name);
        std::fs::write(&p, &f.content).unwrap();
        filetime::set_file_mtime(&p, filetime::FileTime::from_unix_time(f.mtime, 0)).unwrap();
    }
}

fn read_back(dir: &Path, names: &[&str]) -> BTreeMap<String, (Vec<u8>, i64, u32)> {
    let mut m = BTreeMap::new();
    for n in names {
        let p = dir.join(n);
        if let Ok(c) = std::fs::read(&p) {
            let md = std::fs::metadata(&p).unwrap();
            let ft = filetime::FileTime::from_last_modification_time(&md);
            m.insert(n.to_string(), (c, ft.unix_seconds(), ft.nanoseconds()));
        }
    }
    m
}

fn run_vbuild(dir: &Path, settings: &Settings, mode: &str) -> Value {
    let mut c = settings_json(settings);
    // relative paths from inside the directory: the generated code records the grammar path, and
    // every step of a history (and its clean counterpart) must see the same one
    c["dir"] = json!(".");
    c["mode"] = json!(mode);
    let exe = std::env::current_exe().unwrap();
    let out = Command::new(exe).arg("--vbuild").arg(c.to_string()).current_dir(dir).env_remove("OUT_DIR").output().expect("vbuild spawn");
    let s = String::from_utf8_lossy(&out.stdout);
    let line = s.lines().last().unwrap_or("");
    serde_json::from_str(line).unwrap_or_else(|_| json!({"crashed": format!("{:?} {}", out.status, String::from_utf8_lossy(&out.stderr).chars().take(300).collect::<String>())}))
}

struct Env {
    root: PathBuf,
    clean: Mutex<HashMap<(usize, usize, Settings, String), (Value, BTreeMap<String, Vec<u8>>)>>,
    counter: std::sync::atomic::AtomicUsize,
    builds: std::sync::atomic::AtomicUsize,
}

impl Env {
    fn tmp(&self) -> PathBuf {
        let n = self.counter.fetch_add(1, std::sync::atomic::Ordering::SeqCst);
        self.root.join(format!("w{}", n))
    }

    fn clean_build(&self, g: usize, l: usize, settings: &Settings, mode: &str) -> (Value, BTreeMap<String, Vec<u8>>) {
        let key = (g, l, settings.clone(), mode.to_string());
        if let Some(v) = self.clean.lock().unwrap().get(&key) {
            return v.clone();
        }
        let dir = self.tmp();
        std::fs::create_dir_all(&dir).unwrap();
        std::fs::write(dir.join("g.y"), &GRAMMARS[g].1).unwrap();
        std::fs::write(dir.join("l.l"), &LEXERS[l].1).unwrap();
        filetime::set_file_mtime(dir.join("g.y"), filetime::FileTime::from_unix_time(T0, 0)).unwrap();
        filetime::set_file_mtime(dir.join("l.l"), filetime::FileTime::from_unix_time(T0, 0)).unwrap();
        let r = run_vbuild(&dir, settings, mode);
        self.builds.fetch_add(1, std::sync::atomic::Ordering::SeqCst);
        let files: BTreeMap<String, Vec<u8>> = read_back(&dir, &["out.y.rs", "out.l.rs"]).into_iter().map(|(k, v)| (k, blank(&v.0))).collect();
        std::fs::remove_dir_all(&dir).ok();
        let v = (r, files);
        self.clean.lock().unwrap().insert(key, v.clone());
        v
    }
}

#[derive(Clone, Debug, PartialEq, Eq, Hash, PartialOrd, Ord)]
enum Ev {
    EditG(usize, bool), // version, same tick as the last output
    EditL(usize),
    SetOpt(usize, usize),
    Build(&'static str),
}

fn ev_name(e: &Ev) -> String {
    match e {
        Ev::EditG(v, st) => format!("edit grammar -> {}{}", GRAMMARS[*v].0, if *st { " (same tick as the generated file)" } else { "" }),
        Ev::EditL(v) => format!("edit lexer -> {}", LEXERS[*v].0),
        Ev::SetOpt(o, v) => format!("set {} = {:?}", OPTIONS[*o].0, OPTIONS[*o].1[*v]),
        Ev::Build(m) => format!("build ({})", m),
    }
}

fn events(s: &Snap, quick: bool) -> Vec<Ev> {
    let mut v = vec![];
    for g in 0..N_G {
        if g != s.g {
            v.push(Ev::EditG(g, false));
            if s.files.contains_key("out.y.rs") && !quick {
                v.push(Ev::EditG(g, true));
            }
        }
    }
    for l in 0..N_L {
        if l != s.l {
            v.push(Ev::EditL(l));
        }
    }
    for (o, (_, vals)) in OPTIONS.iter().enumerate() {
        for x in 0..vals.len() {
            if x != s.settings[o] {
                v.push(Ev::SetOpt(o, x));
            }
        }
    }
    v.push(Ev::Build("separate"));
    v.push(Ev::Build("both"));
    v
}

fn key(s: &Snap) -> String {
    let f = |n: &str| s.files.get(n).map(|f| format!("{:x}", fnv(&blank(&f.content)))).unwrap_or("-".into());
    let newer = match (s.files.get("out.y.rs"), s.files.get("g.y")) {
        (Some(o), Some(i)) => o.mtime.cmp(&i.mtime) as i8,
        _ => 9,
    };
    format!("{} {} {:?} {} {} {} {:?}", s.g, s.l, s.settings, f("out.y.rs"), f("out.l.rs"), newer, s.parser_built_for)
}

fn fnv(b: &[u8]) -> u64 {
    let mut h: u64 = 0xcbf29ce484222325;
    for x in b {
        h ^= *x as u64;
        h = h.wrapping_mul(0x100000001b3);
    }
    h
}

#[derive(Default)]
struct Stats {
    skipped_regenerations: std::sync::atomic::AtomicUsize,
    failing_builds: std::sync::atomic::AtomicUsize,
    transitions: std::sync::atomic::AtomicUsize,
}

/// Apply one event to a snapshot (running the real builder for Build events) and judge it.
fn step(ctx: &Ctx, env: &Env, st: &Stats, s: &Snap, e: &Ev) -> Snap {
    let mut n = s.clone();
    n.history.push(ev_name(e));
    n.clock += 1;
    st.transitions.fetch_add(1, std::sync::atomic::Ordering::SeqCst);
    match e {
        Ev::EditG(v, same_tick) => {
            n.g = *v;
            let mt = if *same_tick { s.files.get("out.y.rs").map(|f| f.mtime).unwrap_or(n.clock + T0) } else { n.clock + T0 };
            n.files.insert("g.y".into(), FileState { content: GRAMMARS[*v].1.as_bytes().to_vec(), mtime: mt });
            n.parser_built_for = None;
        }
        Ev::EditL(v) => {
            n.l = *v;
            n.files.insert("l.l".into(), FileState { content: LEXERS[*v].1.as_bytes().to_vec(), mtime: n.clock + T0 });
        }
        Ev::SetOpt(o, v) => {
            n.settings[*o] = *v;
        }
        Ev::Build(mode) => {
            let dir = env.tmp();
            write_files(&dir, s);
            let r = run_vbuild(&dir, &s.settings, mode);
            env.builds.fetch_add(1, std::sync::atomic::Ordering::SeqCst);
            let after = read_back(&dir, &["out.y.rs", "out.l.rs"]);
            std::fs::remove_dir_all(&dir).ok();
            let case = || json!({"history": n.history, "result": r});
            let hist = || n.history.join(" ; ");
            if r.get("crashed").is_some() {
                ctx.violation("c18-crash", &format!("the build step crashed: {} after [{}]", r["crashed"], hist()), case());
                return n;
            }
            let (clean_r, clean_files) = env.clean_build(s.g, s.l, &s.settings, mode);
            // which generated files did the builder touch?
            let mut rewritten: BTreeMap<&str, bool> = BTreeMap::new();
            for name in ["out.y.rs", "out.l.rs"] {
                let before = s.files.get(name);
                let now = after.get(name);
                let touched = match (before, now) {
                    (None, None) => false,
                    (Some(b), Some((c, secs, nanos))) => !(b.content == *c && b.mtime == *secs && *nanos == 0),
                    _ => true,
                };
                rewritten.insert(name, touched);
                match now {
                    Some((c, secs, nanos)) => {
                        let mt = if !touched && *nanos == 0 { *secs } else { n.clock + T0 };
                        n.files.insert(name.to_string(), FileState { content: c.clone(), mtime: mt });
                    }
                    None => {
                        n.files.remove(name);
                    }
                }
            }
            let ok_of = |r: &Value, part: &str| -> Option<bool> { r.get(part).and_then(|p| p["ok"].as_bool()) };
            // ---- parser part
            let (p_ok, p_clean_ok) = if *mode == "both" { (ok_of(&r, "both"), ok_of(&clean_r, "both")) } else { (ok_of(&r, "parser"), ok_of(&clean_r, "parser")) };
            let l_ok = if *mode == "both" { ok_of(&r, "both") } else { ok_of(&r, "lexer") };
            let l_clean_ok = if *mode == "both" { ok_of(&clean_r, "both") } else { ok_of(&clean_r, "lexer") };
            if p_ok != p_clean_ok || (*mode != "both" && l_ok != l_clean_ok) {
                ctx.violation(
                    "c18-outcome",
                    &format!("incremental build gives {} but a clean build of the same sources and settings gives {} after [{}]", r, clean_r, hist()),
                    case(),
                );
            }
            if p_clean_ok != Some(true) || l_clean_ok != Some(true) {
                st.failing_builds.fetch_add(1, std::sync::atomic::Ordering::SeqCst);
            }
            for name in ["out.y.rs", "out.l.rs"] {
                let now = n.files.get(name).map(|f| blank(&f.content));
                let clean = clean_files.get(name);
                match (now, clean) {
                    (Some(a), Some(b)) => {
                        if a != *b {
                            ctx.violation("c18-stale", &format!("{} differs from what a clean build of the current sources and settings generates, after [{}]", name, hist()), case());
                        }
                    }
                    (Some(a), None) => {
                        // the clean build does not generate this file (it fails first): what is
                        // there may only be what the current sources and settings generate for
                        // this component on its own - anything else is a stale file of an earlier
                        // version
                        let alone = if name == "out.y.rs" { env.clean_build(s.g, 0, &s.settings, "parser").1 } else { env.clean_build(s.g, s.l, &s.settings, "separate").1 };
                        // a lexer builder that was never invoked (the parser step failed first in
                        // a two-step build script) cannot be blamed for its old output
                        let lexer_builder_ran = *mode == "both" || r.get("lexer").is_some();
                        if alone.get(name) != Some(&a) && (name == "out.y.rs" || lexer_builder_ran) {
                            let summary = format!("the build fails but a stale {} of an earlier version is left behind, after [{}]", name, hist());
                            // known finding C18-b: the lexer builder fails on the lexer source
                            // before it ever runs the parser builder it is configured to drive
                            let lexer_alone_fails = env.clean_build(0, s.l, &s.settings, "lexer").0["lexer"]["ok"] == json!(false);
                            if *mode == "both" && name == "out.y.rs" && lexer_alone_fails {
                                ctx.defect("lexer_error_skips_parser_builder", &summary, case());
                            } else {
                                ctx.violation("c18-stale-after-failure", &summary, case());
                            }
                        }
                    }
                    (None, Some(_)) => {
                        ctx.violation("c18-missing", &format!("{} is missing although a clean build generates it, after [{}]", name, hist()), case());
                    }
                    (None, None) => {}
                }
            }
            // ---- regenerated() and untouched files
            if *mode == "separate" {
                let cfg = (s.g, parser_settings(&s.settings));
                let unchanged = s.parser_built_for.as_ref() == Some(&cfg) && s.files.contains_key("out.y.rs");
                if let Some(regen) = r["parser"]["regenerated"].as_bool() {
                    if unchanged {
                        st.skipped_regenerations.fetch_add(1, std::sync::atomic::Ordering::SeqCst);
                        if regen || rewritten["out.y.rs"] {
                            ctx.violation("c18-needless", &format!("nothing changed since the last successful build but the parser was regenerated (regenerated() = {}, file rewritten = {}) after [{}]", regen, rewritten["out.y.rs"], hist()), case());
                        }
                    } else if !regen && s.parser_built_for.is_none() && s.files.contains_key("out.y.rs") && p_ok == Some(true) {
                        // the grammar was edited (or never built) since the generated file was
                        // written: "a change to either [source] always causes regeneration". A
                        // change of settings alone is only judged by the clean-build comparison.
                        ctx.violation("c18-regenerated-flag", &format!("the grammar changed since the last successful build but regenerated() is false after [{}]", hist()), case());
                    }
                }
                if p_ok == Some(true) {
                    n.parser_built_for = Some(cfg);
                } else {
                    n.parser_built_for = None;
                }
                // identical lexer output must not be rewritten
                if let (Some(b), Some(a)) = (s.files.get("out.l.rs"), n.files.get("out.l.rs")) {
                    if b.content == a.content && rewritten["out.l.rs"] {
                        ctx.violation("c18-lexer-rewritten", &format!("the generated lexer is identical but was rewritten, after [{}]", hist()), case());
                    }
                }
            } else {
                // the lexer builder may fail after its parser builder succeeded: the parser counts
                // as built when the generated file is what a parser-only clean build generates
                // - but only if the parser builder ran at all in this step (the file was written
                // or the whole build succeeded). When the lexer builder fails on its own source
                // before it drives the parser builder, the generated parser is exactly as old as
                // it was, and what it was built for does not change.
                let alone = env.clean_build(s.g, 0, &s.settings, "parser").1;
                let have = n.files.get("out.y.rs").map(|f| blank(&f.content));
                let parser_ran = l_ok == Some(true) || rewritten["out.y.rs"];
                if parser_ran {
                    n.parser_built_for = if have.is_some() && have.as_ref() == alone.get("out.y.rs") { Some((s.g, parser_settings(&s.settings))) } else { None };
                } else if have.is_none() {
                    n.parser_built_for = None;
                }
            }
        }
    }
    n
}

/// Phase 2 initial states: every (grammar, lexer) pair with the options that change what a build
/// *reports* rather than what it generates switched off.
fn alt_initial_states() -> Vec<Snap> {
    let mut alt_inits: Vec<Snap> = vec![];
    let off: Vec<Vec<(usize, usize)>> = vec![vec![(4, 1)], vec![(5, 1)], vec![(4, 1), (5, 1)], vec![(6, 1)], vec![]];
    for g in 0..N_G {
        for l in 0..N_L {
            for o in &off {
                if o.is_empty() && g == 0 && l == 0 {
                    continue;
                }
                let mut sn = Snap { g, l, settings: vec![0; OPTIONS.len()], files: BTreeMap::new(), clock: 0, parser_built_for: None, history: vec![format!("(start from {} / {} with {:?})", GRAMMARS[g].0, LEXERS[l].0, o.iter().map(|(i, v)| format!("{} = {}", OPTIONS[*i].0, OPTIONS[*i].1[*v])).collect::<Vec<_>>())] };
                for (i, v) in o {
                    sn.settings[*i] = *v;
                }
                sn.files.insert("g.y".into(), FileState { content: GRAMMARS[g].1.as_bytes().to_vec(), mtime: T0 });
                sn.files.insert("l.l".into(), FileState { content: LEXERS[l].1.as_bytes().to_vec(), mtime: T0 });
                alt_inits.push(sn);
            }
        }
    }
    // the large pair with default settings (settings strings longer than any fixed-size buffer)
    let mut sn = Snap { g: N_G, l: N_L, settings: vec![0; OPTIONS.len()], files: BTreeMap::new(), clock: 0, parser_built_for: None, history: vec![format!("(start from {} / {} with [])", GRAMMARS[N_G].0, LEXERS[N_L].0)] };
    sn.files.insert("g.y".into(), FileState { content: GRAMMARS[N_G].1.as_bytes().to_vec(), mtime: T0 });
    sn.files.insert("l.l".into(), FileState { content: LEXERS[N_L].1.as_bytes().to_vec(), mtime: T0 });
    alt_inits.push(sn);
    alt_inits
}

pub fn run(ctx: Ctx) -> i32 {
    let root = PathBuf::from(format!("/verif/target/c18-{}", std::process::id()));
    std::fs::remove_dir_all(&root).ok();
    std::fs::create_dir_all(&root).unwrap();
    let env = Env { root: root.clone(), clean: Mutex::new(HashMap::new()), counter: Default::default(), builds: Default::default() };
    let st = Stats::default();
    let mut init = Snap { g: 0, l: 0, settings: vec![0; OPTIONS.len()], files: BTreeMap::new(), clock: 0, parser_built_for: None, history: vec![] };
    init.files.insert("g.y".into(), FileState { content: GRAMMARS[0].1.as_bytes().to_vec(), mtime: T0 });
    init.files.insert("l.l".into(), FileState { content: LEXERS[0].1.as_bytes().to_vec(), mtime: T0 });
    if let Some(case) = load_replay(&ctx) {
        // replay a history given as event names
        let hist: Vec<String> = case["history"].as_array().map(|a| a.iter().map(|x| x.as_str().unwrap_or("").to_string()).collect()).unwrap_or_default();
        // a phase-2 history names its (non-default) initial state in its first entry
        let mut s = match hist.first() {
            Some(h0) if h0.starts_with("(start from") => match alt_initial_states().into_iter().find(|a| &a.history[0] == h0) {
                Some(a) => a,
                None => machinery("replay: unknown initial state"),
            },
            _ => init.clone(),
        };
        for h in hist.into_iter().filter(|h| !h.starts_with("(start from")) {
            let evs = events(&s, false);
            if let Some(e) = evs.iter().find(|e| ev_name(e) == h) {
                s = step(&ctx, &env, &st, &s, e);
            }
        }
        std::fs::remove_dir_all(&root).ok();
        return ctx.finish(json!({"states":1,"transitions":1,"traces_validated_against_impl":1,"samples":[case]}), &[], false);
    }
    let (max_events, max_builds, wall_cap) = if ctx.quick() { (4usize, 3usize, 45.0f64) } else { (6, 4, 1500.0) };
    // frontier entries: (snapshot, events used, builds used)
    let mut frontier: Vec<(Snap, usize, usize)> = vec![(init, 0, 0)];
    let mut seen: HashMap<String, (usize, usize)> = HashMap::new();
    let mut states = 0usize;
    let mut completed_depth = 0;
    let mut capped = false;
    for depth in 1..=max_events {
        // expand every frontier state by every event
        let work: Vec<(usize, Ev)> = frontier
            .iter()
            .enumerate()
            .flat_map(|(i, (s, _, nb))| {
                events(s, ctx.quick())
                    .into_iter()
                    .filter(move |e| !matches!(e, Ev::Build(_)) || *nb < max_builds)
                    // the last event of a history is a build (only builds are judged)
                    .filter(move |e| depth < max_events || matches!(e, Ev::Build(_)))
                    .map(move |e| (i, e))
            })
            .collect();
        if ctx.start.elapsed().as_secs_f64() > wall_cap {
            capped = true;
            break;
        }
        let results: Vec<(Snap, usize, usize)> = work
            .par_iter()
            .map(|(i, e)| {
                let (s, ne, nb) = &frontier[*i];
                let n = step(&ctx, &env, &st, s, e);
                (n, ne + 1, nb + if matches!(e, Ev::Build(_)) { 1 } else { 0 })
            })
            .collect();
        let mut next = vec![];
        for (s, ne, nb) in results {
            let k = key(&s);
            let rem = (max_events - ne, max_builds - nb);
            match seen.get(&k) {
                Some((re, rb)) if *re >= rem.0 && *rb >= rem.1 => continue,
                _ => {}
            }
            seen.insert(k, rem);
            states += 1;
            next.push((s, ne, nb));
        }
        frontier = next;
        completed_depth = depth;
        if ctx.nviolations() > 200 {
            break;
        }
    }
    // ---- phase 2: start from non-initial states. Every (grammar, lexer) pair with the options
    // that change what a build *reports* rather than what it generates switched off, then:
    // build ; one change ; build. (From the all-defaults initial state these histories need five
    // or more events.)
    let alt_inits = alt_initial_states();
    let phase2_ok = ctx.start.elapsed().as_secs_f64() <= wall_cap && ctx.nviolations() <= 200;
    if phase2_ok {
        let modes: [&'static str; 2] = ["separate", "both"];
        let work2: Vec<(usize, &'static str)> = (0..alt_inits.len()).flat_map(|i| modes.iter().map(move |m| (i, *m))).collect();
        let n2: usize = work2
            .par_iter()
            .map(|(i, m1)| {
                let s1 = step(&ctx, &env, &st, &alt_inits[*i], &Ev::Build(m1));
                let mut n = 1;
                // (with the edits that land in the same tick as the generated file: equal modification times)
                for e in events(&s1, false).into_iter().filter(|e| !matches!(e, Ev::Build(_))) {
                    let s2 = step(&ctx, &env, &st, &s1, &e);
                    // the second build in the same mode (the mixed modes are covered from the
                    // default initial state)
                    let _ = step(&ctx, &env, &st, &s2, &Ev::Build(m1));
                    n += 2;
                }
                n
            })
            .sum();
        states += n2;
    }
    std::fs::remove_dir_all(&root).ok();
    let builds = env.builds.load(std::sync::atomic::Ordering::SeqCst);
    let skipped = st.skipped_regenerations.load(std::sync::atomic::Ordering::SeqCst);
    let failing = st.failing_builds.load(std::sync::atomic::Ordering::SeqCst);
    if builds == 0 || skipped == 0 || failing == 0 {
        machinery(&format!("vacuous exploration (C18): builds {} skipped regenerations {} failing builds {}", builds, skipped, failing));
    }
    ctx.sample(json!({"history": ["build (separate)", "edit grammar -> g1p", "set recoverer = \"none\"", "build (both)"]}));
    ctx.sample(json!({"history": ["build (separate)", "edit grammar -> gX", "build (separate)"]}));
    let cov = json!({
        "states": states,
        "transitions": st.transitions.load(std::sync::atomic::Ordering::SeqCst),
        "traces_validated_against_impl": builds,
        "evaluations": builds,
        "distinct_nontrivial": failing,
        "rule": "history of events over the real builders, de-duplicated on (versions, settings, contents of the generated files, relative mtimes); non-trivial = builds whose clean counterpart fails",
        "grammar_versions": GRAMMARS.iter().map(|x| x.0).collect::<Vec<_>>(),
        "lexer_versions": LEXERS.iter().map(|x| x.0).collect::<Vec<_>>(),
        "options": OPTIONS.iter().map(|x| x.0).collect::<Vec<_>>(),
        "max_events": max_events,
        "max_builds": max_builds,
        "completed_depth": completed_depth,
        "phase2_histories_from_non_initial_states": if phase2_ok { alt_inits.len() * 2 } else { 0 },
        "wall_cap_hit": capped,
        "real_build_steps": builds,
        "builds_where_nothing_had_changed": skipped,
        "builds_whose_clean_counterpart_fails": failing,
    });
    ctx.finish(cov, &["file modification times are logical and set by the harness; the builder only ever reads them", "clocks that run backwards are outside the modelled environment"], !capped && completed_depth == max_events)
}

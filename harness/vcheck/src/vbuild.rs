//! `vcheck --vbuild '<json>'`: performs exactly ONE compile-time build step with the real
//! CTParserBuilder / CTLexerBuilder of the working tree (one process per step, as under cargo: the
//! builders keep a process-global set of generated paths). Prints one JSON line with the outcome.

use cfgrammar::yacc::{YaccKind, YaccOriginalActionKind};
use lrlex::{CTLexerBuilder, DefaultLexerTypes};
use lrpar::{CTParserBuilder, RecoveryKind, RustEdition, SerialisationFormat, Visibility};
use serde_json::{Value, json};
use std::panic::{AssertUnwindSafe, catch_unwind};

fn vis(s: Option<&str>) -> Visibility {
    match s.unwrap_or("private") {
        "pub" => Visibility::Public,
        "pub(super)" => Visibility::PublicSuper,
        "pub(self)" => Visibility::PublicSelf,
        "pub(crate)" => Visibility::PublicCrate,
        x if x.starts_with("pub(in ") => Visibility::PublicIn(x[7..x.len() - 1].to_string()),
        _ => Visibility::Private,
    }
}
fn lvis(s: Option<&str>) -> lrlex::Visibility {
    match s.unwrap_or("private") {
        "pub" => lrlex::Visibility::Public,
        "pub(super)" => lrlex::Visibility::PublicSuper,
        "pub(self)" => lrlex::Visibility::PublicSelf,
        "pub(crate)" => lrlex::Visibility::PublicCrate,
        x if x.starts_with("pub(in ") => lrlex::Visibility::PublicIn(x[7..x.len() - 1].to_string()),
        _ => lrlex::Visibility::Private,
    }
}
fn ledition(s: Option<&str>) -> lrlex::RustEdition {
    match s.unwrap_or("2021") {
        "2015" => lrlex::RustEdition::Rust2015,
        "2018" => lrlex::RustEdition::Rust2018,
        _ => lrlex::RustEdition::Rust2021,
    }
}
fn edition(s: Option<&str>) -> RustEdition {
    match s.unwrap_or("2021") {
        "2015" => RustEdition::Rust2015,
        "2018" => RustEdition::Rust2018,
        _ => RustEdition::Rust2021,
    }
}

pub fn configure<'a>(mut b: CTParserBuilder<'a, DefaultLexerTypes<u32>>, c: &'a Value) -> CTParserBuilder<'a, DefaultLexerTypes<u32>> {
    match c["yacckind"].as_str() {
        Some("gpt") => b = b.yacckind(YaccKind::Original(YaccOriginalActionKind::GenericParseTree)),
        Some("noaction") => b = b.yacckind(YaccKind::Original(YaccOriginalActionKind::NoAction)),
        Some("useraction") => b = b.yacckind(YaccKind::Original(YaccOriginalActionKind::UserAction)),
        Some("grmtools") => b = b.yacckind(YaccKind::Grmtools),
        _ => {}
    }
    match c["recoverer"].as_str() {
        Some("cpctplus") => b = b.recoverer(RecoveryKind::CPCTPlus),
        Some("none") => b = b.recoverer(RecoveryKind::None),
        _ => {}
    }
    match c["serialisation"].as_str() {
        Some("fixed") => b = b.serialisation_format(SerialisationFormat::FixedSizeInteger),
        Some("var") => b = b.serialisation_format(SerialisationFormat::VariableSizedInteger),
        _ => {}
    }
    if let Some(x) = c["error_on_conflicts"].as_bool() {
        b = b.error_on_conflicts(x);
    }
    if let Some(x) = c["warnings_are_errors"].as_bool() {
        b = b.warnings_are_errors(x);
    }
    if let Some(x) = c["show_warnings"].as_bool() {
        b = b.show_warnings(x);
    }
    if let Some(m) = c["mod_name"].as_str() {
        b = b.mod_name(m);
    }
    b = b.visibility(vis(c["visibility"].as_str()));
    b = b.rust_edition(edition(c["edition"].as_str()));
    b
}

pub fn main(arg: &str) {
    vcore::report::quiet_panics();
    let c: Value = serde_json::from_str(arg).expect("vbuild: bad json");
    let dir = c["dir"].as_str().expect("vbuild: dir").to_string();
    let gy = format!("{}/{}", dir, c["grammar_file"].as_str().unwrap_or("g.y"));
    let ll = format!("{}/{}", dir, c["lexer_file"].as_str().unwrap_or("l.l"));
    let oy = format!("{}/{}", dir, c["out_y"].as_str().unwrap_or("out.y.rs"));
    let ol = format!("{}/{}", dir, c["out_l"].as_str().unwrap_or("out.l.rs"));
    let mode = c["mode"].as_str().unwrap_or("separate");
    let mut out = json!({});
    match mode {
        "both" => {
            // CTLexerBuilder driving the parser build through lrpar_config (the usual build.rs)
            let r = catch_unwind(AssertUnwindSafe(|| {
                let cc = c.clone();
                let (gy2, oy2) = (gy.clone(), oy.clone());
                let mut lb = CTLexerBuilder::<DefaultLexerTypes<u32>>::new().lrpar_config(move |ctp| {
                    // the closure needs 'static data: leak the settings (one build per process)
                    let cc: &'static Value = Box::leak(Box::new(cc.clone()));
                    configure(ctp, cc).grammar_path(&gy2).output_path(&oy2)
                });
                lb = lb.lexer_path(&ll).output_path(&ol).visibility(lvis(c["lex_visibility"].as_str())).rust_edition(ledition(c["lex_edition"].as_str()));
                if let Some(m) = c["lex_mod_name"].as_str() {
                    lb = lb.mod_name(Box::leak(m.to_string().into_boxed_str()));
                }
                if let Some(x) = c["lex_case_insensitive"].as_bool() {
                    lb = lb.case_insensitive(x);
                }
                lb.build().map(|_| ()).map_err(|e| e.to_string())
            }));
            match r {
                Ok(Ok(())) => out["both"] = json!({"ok": true}),
                Ok(Err(e)) => out["both"] = json!({"ok": false, "err": e}),
                Err(_) => out["both"] = json!({"ok": false, "err": "panic"}),
            }
        }
        _ => {
            let mut token_map = None;
            if mode != "lexer" {
                let r = catch_unwind(AssertUnwindSafe(|| {
                    let b = configure(CTParserBuilder::<DefaultLexerTypes<u32>>::new(), &c).grammar_path(&gy).output_path(&oy);
                    b.build().map(|p| (p.regenerated(), p.token_map().clone())).map_err(|e| e.to_string())
                }));
                match r {
                    Ok(Ok((regen, tm))) => {
                        out["parser"] = json!({"ok": true, "regenerated": regen});
                        token_map = Some(tm);
                    }
                    Ok(Err(e)) => out["parser"] = json!({"ok": false, "err": e}),
                    Err(_) => out["parser"] = json!({"ok": false, "err": "panic"}),
                }
            }
            if mode != "parser" && (mode == "lexer" || token_map.is_some()) {
                let r = catch_unwind(AssertUnwindSafe(|| {
                    let mut lb = CTLexerBuilder::<DefaultLexerTypes<u32>>::new().lexer_path(&ll).output_path(&ol).visibility(lvis(c["lex_visibility"].as_str())).rust_edition(ledition(c["lex_edition"].as_str()));
                    if let Some(tm) = &token_map {
                        lb = lb.rule_ids_map(tm);
                    }
                    if let Some(m) = c["lex_mod_name"].as_str() {
                        lb = lb.mod_name(Box::leak(m.to_string().into_boxed_str()));
                    }
                    if let Some(x) = c["lex_case_insensitive"].as_bool() {
                        lb = lb.case_insensitive(x);
                    }
                    lb.build().map(|_| ()).map_err(|e| e.to_string())
                }));
                match r {
                    Ok(Ok(())) => out["lexer"] = json!({"ok": true}),
                    Ok(Err(e)) => out["lexer"] = json!({"ok": false, "err": e}),
                    Err(_) => out["lexer"] = json!({"ok": false, "err": "panic"}),
                }
            }
        }
    }
    println!("{}", out);
}

//! Runs the REAL compile-time builders of the working tree over an enumerated family of
//! grammar / lexer pairs and builder settings, and writes `cases.rs`: one module per case that
//! includes the generated parser and lexer plus a uniform wrapper around their differing `parse`
//! signatures, and the sources + settings so that `main.rs` can build the run-time counterpart.

use std::fmt::Write as _;
use std::path::PathBuf;
use vcore::gram::{family_empty, family_expr, family_seeds, RefGrammar, Sym};

#[derive(Clone)]
struct Case {
    name: String,
    y: String,
    l: String,
    kind: &'static str,      // gpt | noaction | useraction | grmtools
    recoverer: &'static str, // cpctplus | none
    ser: Option<&'static str>,
    edition: &'static str,
    vis: &'static str,
    alphabet: String,
    maxlen: usize,
    rules: Vec<String>,
    lex_names: Vec<String>,
    param: bool,
    /// lexer flags given through the builder (not the %grmtools section)
    lflags: Vec<(&'static str, bool)>,
}

fn observer_action(pidx: usize, rhs: &[Sym]) -> String {
    // an S-expression built from $1..$n, $span, $lexer and a literal dollar sign
    let mut s = String::new();
    write!(s, "{{ let mut s = String::from(\"(P{} \"); s.push_str(&format!(\"{{:?}} \", $span)); ", pidx).ok();
    for (k, sym) in rhs.iter().enumerate() {
        match sym {
            Sym::T(_) => {
                write!(s, "match ${} {{ Ok(l) => s.push_str(&format!(\"T{{:?}}:{{}} \", l.span(), $lexer.span_str(l.span()))), Err(l) => s.push_str(&format!(\"E{{:?}} \", l.span())) }}; ", k + 1).ok();
            }
            Sym::R(_) => {
                write!(s, "s.push_str(&${}); s.push(' '); ", k + 1).ok();
            }
        }
    }
    s.push_str("s.push_str(\"$$\"); s.push(')'); s }");
    s
}

fn grammar_text(g: &RefGrammar, kind: &str, param: bool) -> String {
    grammar_text_layout(g, kind, param, false)
}

/// `reopen`: every rule with two or more productions is written in two pieces (`A: p1; ...; A: p2 | p3;`),
/// so that its productions are not numbered consecutively.
fn grammar_text_layout(g: &RefGrammar, kind: &str, param: bool, reopen: bool) -> String {
    let mut s = String::new();
    let header = match kind {
        "gpt" => "%grmtools{yacckind: Original(GenericParseTree)}",
        "noaction" => "%grmtools{yacckind: Original(NoAction)}",
        "useraction" => "%grmtools{yacckind: Original(UserAction)}",
        _ => "%grmtools{yacckind: Grmtools}",
    };
    writeln!(s, "{}", header).ok();
    writeln!(s, "%start {}", g.rule_name(0)).ok();
    writeln!(s, "%expect-unused Unmatched 'UNMATCHED'").ok();
    if kind == "useraction" {
        writeln!(s, "%actiontype String").ok();
    }
    if param {
        writeln!(s, "%parse-param p: u64").ok();
    }
    // whatever conflicts the grammar has are accepted: the builder is told not to fail on them
    writeln!(s, "%%").ok();
    let mut pidx = 0;
    // (rule, first production index, one past the last) in the order they are written
    let mut pieces: Vec<(usize, usize, usize)> = vec![];
    for (r, ps) in g.rules.iter().enumerate() {
        pieces.push((r, 0, if reopen && ps.len() >= 2 { 1 } else { ps.len() }));
    }
    if reopen {
        for (r, ps) in g.rules.iter().enumerate() {
            if ps.len() >= 2 {
                pieces.push((r, 1, ps.len()));
            }
        }
    }
    for (r, from, to) in pieces {
        let ps = &g.rules[r][from..to];
        if kind == "grmtools" {
            write!(s, "{} -> String:", g.rule_name(r)).ok();
        } else {
            write!(s, "{}:", g.rule_name(r)).ok();
        }
        for (i, p) in ps.iter().enumerate() {
            if i > 0 {
                s.push_str(" |");
            }
            for sym in p {
                match sym {
                    Sym::R(x) => write!(s, " {}", g.rule_name(*x)).ok(),
                    Sym::T(x) => write!(s, " '{}'", g.tok_name(*x)).ok(),
                };
            }
            if kind == "useraction" || kind == "grmtools" {
                s.push(' ');
                s.push_str(&observer_action(pidx, p));
            }
            pidx += 1;
        }
        s.push_str(" ;\n");
    }
    if kind == "grmtools" {
        s.push_str("Unmatched -> String: 'UNMATCHED' { String::new() } ;\n");
    } else if kind == "useraction" {
        s.push_str("Unmatched: 'UNMATCHED' { String::new() } ;\n");
    } else {
        s.push_str("Unmatched: 'UNMATCHED' ;\n");
    }
    s
}

fn lexer_text(g: &RefGrammar) -> String {
    let mut s = String::from("%%\n");
    for t in 0..g.ntoks {
        writeln!(s, "{} '{}'", (b'a' + t as u8) as char, g.tok_name(t)).ok();
    }
    s.push_str("[ ]+ ;\n. 'UNMATCHED'\n");
    s
}

fn alphabet(g: &RefGrammar) -> String {
    let mut a: String = (0..g.ntoks).map(|t| (b'a' + t as u8) as char).collect();
    a.push(' ');
    a
}

fn mk(name: &str, g: &RefGrammar, kind: &'static str, recoverer: &'static str, maxlen: usize) -> Case {
    Case {
        name: name.to_string(),
        y: grammar_text(g, kind, false),
        l: lexer_text(g),
        kind,
        recoverer,
        ser: None,
        edition: "2021",
        vis: "private",
        alphabet: alphabet(g),
        maxlen,
        rules: (0..g.nrules()).map(|r| g.rule_name(r)).collect(),
        lex_names: (0..g.ntoks).filter(|t| g.rules.iter().flatten().flatten().any(|s| *s == Sym::T(*t))).map(|t| g.tok_name(t)).collect(),
        param: false,
        lflags: vec![],
    }
}

fn main() {
    let out = PathBuf::from(std::env::var("OUT_DIR").unwrap());
    let thorough = std::env::var("VERIF_CTRT_THOROUGH").is_ok();
    println!("cargo:rerun-if-env-changed=VERIF_CTRT_THOROUGH");
    let mut cases: Vec<Case> = vec![];
    let seeds = family_seeds();
    let base = seeds[1].clone(); // Corchuelo: E: 'N' | E '+' 'N' | '(' E ')'
    let base2 = family_empty()[12].clone();
    // (a) settings on two base grammars
    for (bn, b) in [("corchuelo", &base), ("emptylist", &base2)] {
        for kind in ["gpt", "noaction", "useraction", "grmtools"] {
            for rec in ["cpctplus", "none"] {
                cases.push(mk(&format!("{}_{}_{}", bn, kind, rec), b, kind, rec, 5));
            }
        }
        let sers: Vec<Option<&'static str>> = vec![Some("fixed"), Some("var")];
        let eds = ["2015", "2018", "2021"];
        let viss = ["pub", "pub(crate)", "pub(super)", "pub(self)", "pub(in crate::cases)"];
        if thorough {
            for kind in ["gpt", "grmtools"] {
                for ser in &sers {
                    for ed in eds {
                        for vis in viss.iter().chain(["private"].iter()) {
                            let mut c = mk(&format!("{}_{}_full", bn, kind), b, kind, "cpctplus", 4);
                            c.ser = *ser;
                            c.edition = ed;
                            c.vis = vis;
                            cases.push(c);
                        }
                    }
                }
            }
        } else {
            for ser in &sers {
                let mut c = mk(&format!("{}_ser", bn), b, "grmtools", "cpctplus", 4);
                c.ser = *ser;
                cases.push(c);
            }
            for ed in ["2015", "2018"] {
                let mut c = mk(&format!("{}_ed", bn), b, "grmtools", "cpctplus", 4);
                c.edition = ed;
                cases.push(c);
            }
            for vis in viss {
                let mut c = mk(&format!("{}_vis", bn), b, "gpt", "cpctplus", 4);
                c.vis = vis;
                cases.push(c);
            }
        }
        let mut c = mk(&format!("{}_param", bn), b, "grmtools", "cpctplus", 4);
        c.y = grammar_text(b, "grmtools", true);
        c.param = true;
        cases.push(c);
    }
    // (b) grammar family on default settings with observer actions
    let mut fam: Vec<(String, RefGrammar)> = vec![];
    for (i, g) in family_empty().into_iter().enumerate() {
        fam.push((format!("empty{}", i), g));
    }
    for (i, g) in family_expr().into_iter().enumerate().filter(|(_, g)| g.ntoks <= 3) {
        if thorough || i % 4 == 0 {
            fam.push((format!("expr{}", i), g));
        }
    }
    for (i, g) in seeds.iter().enumerate() {
        fam.push((format!("seed{}", i), g.clone()));
    }
    for (n, g) in &fam {
        let maxlen = if g.ntoks <= 3 { 5 } else if g.ntoks <= 5 { 4 } else { 3 };
        cases.push(mk(&format!("{}_grm", n), g, "grmtools", "cpctplus", maxlen));
        if thorough {
            cases.push(mk(&format!("{}_ua", n), g, "useraction", "cpctplus", maxlen));
            cases.push(mk(&format!("{}_gpt", n), g, "gpt", "cpctplus", maxlen));
        }
    }
    // (b') the same observer grammars with every multi-production rule written in two pieces
    // (productions of one rule are then not numbered consecutively)
    for (n, g) in fam.iter().filter(|(_, g)| g.rules.iter().any(|ps| ps.len() >= 2) && g.nrules() >= 2) {
        let pick = n.starts_with("seed") || n.ends_with('0') || n.ends_with('2') || thorough;
        if !pick {
            continue;
        }
        let maxlen = if g.ntoks <= 3 { 4 } else { 3 };
        for kind in ["grmtools", "useraction", "gpt"] {
            if kind != "grmtools" && !thorough && !n.starts_with("seed0") {
                continue;
            }
            let mut c = mk(&format!("{}_reopened_{}", n, kind), g, kind, "cpctplus", maxlen);
            c.y = grammar_text_layout(g, kind, false, true);
            cases.push(c);
        }
    }
    // (b'') the base grammars with every token declared %avoid_insert: whatever recovery inserts
    // is then an "avoided" token, and the actions must still see it as an inserted (Err) lexeme
    for (bn, b) in [("corchuelo", &base), ("emptylist", &base2)] {
        for kind in ["grmtools", "useraction"] {
            let mut c = mk(&format!("{}_avoid_{}", bn, kind), b, kind, "cpctplus", 4);
            let toks: Vec<String> = (0..b.ntoks).filter(|t| b.rules.iter().flatten().flatten().any(|s| *s == Sym::T(*t))).map(|t| format!("'{}'", b.tok_name(t))).collect();
            c.y = c.y.replacen("%expect-unused", &format!("%avoid_insert {}\n%expect-unused", toks.join(" ")), 1);
            cases.push(c);
        }
    }
    // (c) lexer-centred cases: flags, start states, skip rules, non-ASCII names
    {
        let y = "%grmtools{yacckind: Original(GenericParseTree)}\n%start S\n%expect-unused Unmatched 'UNMATCHED'\n%%\nS: | S T;\nT: 'A' | 'É' | 'OPEN' S 'CLOSE';\nUnmatched: 'UNMATCHED';\n".to_string();
        let l = "%grmtools{case_insensitive, !dot_matches_new_line}\n%x C\n%%\n<INITIAL,C>a 'A'\né 'É'\n\\( <+C>'OPEN'\n<C>\\) <-C>'CLOSE'\n<C>[ ]+ ;\n[ \\n]+ ;\n<INITIAL,C>. 'UNMATCHED'\n".to_string();
        cases.push(Case { name: "lexer_states".into(), y, l, kind: "gpt", recoverer: "cpctplus", ser: None, edition: "2021", vis: "private", alphabet: "aAé() \n".into(), maxlen: 4, rules: vec!["S".into(), "T".into()], lex_names: vec!["A".into(), "OPEN".into(), "CLOSE".into()], param: false, lflags: vec![] });
    }

    // (d) every lexer flag, once through the %grmtools section and once through the builder
    {
        let y = "%grmtools{yacckind: Original(GenericParseTree)}\n%start S\n%%\nS: | S T;\nT: 'A' | 'B' | 'W' | 'C' | 'E' | 'U' | 'D';\n".to_string();
        let rules = "a 'A'\n^b 'B'\n\\b 'W'\nc+? 'C'\nd e 'E'\n\\w 'U'\n. 'D'\n";
        let flags: [(&'static str, bool); 7] = [("case_insensitive", true), ("dot_matches_new_line", false), ("multi_line", false), ("posix_escapes", true), ("swap_greed", true), ("ignore_whitespace", true), ("allow_wholeline_comments", true)];
        for (f, v) in flags {
            let body = if f == "allow_wholeline_comments" { format!("%%\n// a comment line\n{}", rules) } else { format!("%%\n{}", rules) };
            let section = format!("%grmtools{{{}{}}}\n{}", if v { "" } else { "!" }, f, body);
            let mk2 = |name: String, l: String, lflags: Vec<(&'static str, bool)>| Case { name, y: y.clone(), l, kind: "gpt", recoverer: "none", ser: None, edition: "2021", vis: "private", alphabet: "aAb\n\u{8}cdeé ".into(), maxlen: 3, rules: vec!["S".into(), "T".into()], lex_names: vec!["A".into(), "B".into(), "W".into(), "C".into(), "E".into(), "U".into(), "D".into()], param: false, lflags };
            cases.push(mk2(format!("lexflag_section_{}", f), section, vec![]));
            cases.push(mk2(format!("lexflag_builder_{}", f), body.clone(), vec![(f, v)]));
        }
    }

    let mut code = String::from("pub mod cases {\n#![allow(unused, clippy::all, deprecated)]\nuse lrpar::{Lexeme, LexParseError, NonStreamingLexer};\nuse lrlex::{DefaultLexerTypes, DefaultLexeme};\npub struct CaseInfo { pub name: &'static str, pub y: &'static str, pub l: &'static str, pub kind: &'static str, pub recoverer: &'static str, pub alphabet: &'static str, pub maxlen: usize, pub param: bool, pub lexerdef: fn() -> lrlex::LRNonStreamingLexerDef<DefaultLexerTypes<u32>>, pub parse: for<'a, 'b> fn(&'a dyn NonStreamingLexer<'b, DefaultLexerTypes<u32>>) -> (Option<String>, Vec<LexParseError<u32, DefaultLexerTypes<u32>>>), pub token_epp: fn(cfgrammar::TIdx<u32>) -> Option<&'static str>, pub lflags: &'static [(&'static str, bool)], pub rule_consts: &'static [(&'static str, u32)], pub tok_consts: &'static [(&'static str, u32)], pub generated: &'static str }\n");
    let mut infos = String::from("pub fn all() -> Vec<CaseInfo> { vec![\n");
    let mut failed = String::from("pub struct FailedCase { pub name: &'static str, pub y: &'static str, pub l: &'static str, pub lflags: &'static [(&'static str, bool)], pub err: &'static str }\npub const FAILED: &[FailedCase] = &[\n");
    for (i, c) in cases.iter().enumerate() {
        let yp = out.join(format!("case{}.y", i));
        let lp = out.join(format!("case{}.l", i));
        std::fs::write(&yp, &c.y).unwrap();
        std::fs::write(&lp, &c.l).unwrap();
        let yo = out.join(format!("case{}.y.rs", i));
        let lo = out.join(format!("case{}.l.rs", i));
        let ymod = format!("case{}_y", i);
        let lmod = format!("case{}_l", i);
        let vis = |s: &str| match s {
            "pub" => lrpar::Visibility::Public,
            "pub(crate)" => lrpar::Visibility::PublicCrate,
            "pub(super)" => lrpar::Visibility::PublicSuper,
            "pub(self)" => lrpar::Visibility::PublicSelf,
            "private" => lrpar::Visibility::Private,
            x => lrpar::Visibility::PublicIn(x[7..x.len() - 1].to_string()),
        };
        let lvis = |s: &str| match s {
            "pub" => lrlex::Visibility::Public,
            "pub(crate)" => lrlex::Visibility::PublicCrate,
            "pub(super)" => lrlex::Visibility::PublicSuper,
            "pub(self)" => lrlex::Visibility::PublicSelf,
            "private" => lrlex::Visibility::Private,
            x => lrlex::Visibility::PublicIn(x[7..x.len() - 1].to_string()),
        };
        let ed = match c.edition {
            "2015" => lrpar::RustEdition::Rust2015,
            "2018" => lrpar::RustEdition::Rust2018,
            _ => lrpar::RustEdition::Rust2021,
        };
        let led = match c.edition {
            "2015" => lrlex::RustEdition::Rust2015,
            "2018" => lrlex::RustEdition::Rust2018,
            _ => lrlex::RustEdition::Rust2021,
        };
        let rec = if c.recoverer == "none" { lrpar::RecoveryKind::None } else { lrpar::RecoveryKind::CPCTPlus };
        let (cvis, cser, cymod, cyo) = (c.vis.to_string(), c.ser, ymod.clone(), yo.clone());
        let ypc = yp.clone();
        let ymod_static: &'static str = Box::leak(ymod.clone().into_boxed_str());
        let lmod_static: &'static str = Box::leak(lmod.clone().into_boxed_str());
        let res = lrlex::CTLexerBuilder::<lrlex::DefaultLexerTypes<u32>>::new()
            .lrpar_config(move |ctp| {
                let mut ctp = ctp.grammar_path(&ypc).output_path(&cyo).mod_name(ymod_static).recoverer(rec).visibility(vis(&cvis)).rust_edition(ed).error_on_conflicts(false).warnings_are_errors(false).show_warnings(false);
                let _ = &cymod;
                if let Some(s) = cser {
                    ctp = ctp.serialisation_format(if s == "fixed" { lrpar::SerialisationFormat::FixedSizeInteger } else { lrpar::SerialisationFormat::VariableSizedInteger });
                }
                ctp
            })
            .lexer_path(&lp)
            .output_path(&lo)
            .mod_name(lmod_static)
            .visibility(lvis(c.vis))
            .rust_edition(led);
        let mut lb = res;
        for (f, v) in &c.lflags {
            lb = match *f {
                "case_insensitive" => lb.case_insensitive(*v),
                "dot_matches_new_line" => lb.dot_matches_new_line(*v),
                "multi_line" => lb.multi_line(*v),
                "posix_escapes" => lb.posix_escapes(*v),
                "swap_greed" => lb.swap_greed(*v),
                "ignore_whitespace" => lb.ignore_whitespace(*v),
                "unicode" => lb.unicode(*v),
                "allow_wholeline_comments" => lb.allow_wholeline_comments(*v),
                _ => lb,
            };
        }
        // A case the real builders reject (or panic on) is not a reason to stop: it is recorded and
        // the binary compares it with the run-time pipeline's verdict on the same sources.
        let res = std::panic::catch_unwind(std::panic::AssertUnwindSafe(|| lb.build().map(|_| ()).map_err(|e| e.to_string())));
        let failure = match res {
            Ok(Ok(())) => None,
            Ok(Err(e)) => Some(e),
            Err(_) => Some("the builder panicked".to_string()),
        };
        if let Some(e) = failure {
            writeln!(failed, "FailedCase {{ name: {:?}, y: {:?}, l: {:?}, lflags: &{:?}, err: {:?} }},", c.name, c.y, c.l, c.lflags, e).ok();
            if i == 0 {
                std::fs::write(out.join("case0.y.rs"), "mod case0_y { }").unwrap();
            }
            continue;
        }
        // wrapper
        writeln!(code, "pub mod case{} {{\n#![allow(unused, clippy::all, deprecated)]\nuse lrpar::{{Lexeme, LexParseError, NonStreamingLexer}};\nuse lrlex::{{DefaultLexerTypes, DefaultLexeme}};", i).ok();
        writeln!(code, "include!(concat!(env!(\"OUT_DIR\"), \"/case{}.y.rs\"));", i).ok();
        writeln!(code, "include!(concat!(env!(\"OUT_DIR\"), \"/case{}.l.rs\"));", i).ok();
        writeln!(code, "pub fn lexerdef() -> lrlex::LRNonStreamingLexerDef<DefaultLexerTypes<u32>> {{ {}::lexerdef() }}", lmod).ok();
        writeln!(code, "pub fn token_epp(t: cfgrammar::TIdx<u32>) -> Option<&'static str> {{ {}::token_epp(t) }}", ymod).ok();
        let parg = if c.param { ", 77u64" } else { "" };
        match c.kind {
            "gpt" => {
                writeln!(code, "fn render(n: &{ym}::Node<DefaultLexeme<u32>, u32>) -> String {{ match n {{ {ym}::Node::Term {{ lexeme }} => format!(\"T{{}}[{{:?}},{{}}]\", lexeme.tok_id(), lexeme.span(), lexeme.faulty()), {ym}::Node::Nonterm {{ ridx, nodes }} => format!(\"(R{{}} {{}})\", usize::from(*ridx), nodes.iter().map(render).collect::<Vec<_>>().join(\" \")) }} }}", ym = ymod).ok();
                writeln!(code, "pub fn parse<'a, 'b>(lexer: &'a dyn NonStreamingLexer<'b, DefaultLexerTypes<u32>>) -> (Option<String>, Vec<LexParseError<u32, DefaultLexerTypes<u32>>>) {{ let (t, e) = {}::parse(lexer{}); (t.map(|n| render(&n)), e) }}", ymod, parg).ok();
            }
            "noaction" => {
                writeln!(code, "pub fn parse<'a, 'b>(lexer: &'a dyn NonStreamingLexer<'b, DefaultLexerTypes<u32>>) -> (Option<String>, Vec<LexParseError<u32, DefaultLexerTypes<u32>>>) {{ let e = {}::parse(lexer{}); (None, e) }}", ymod, parg).ok();
            }
            _ => {
                writeln!(code, "pub fn parse<'a, 'b>(lexer: &'a dyn NonStreamingLexer<'b, DefaultLexerTypes<u32>>) -> (Option<String>, Vec<LexParseError<u32, DefaultLexerTypes<u32>>>) {{ let (v, e) = {}::parse(lexer{}); (v, e) }}", ymod, parg).ok();
            }
        }
        let ident_ok = |s: &str| !s.is_empty() && s.chars().all(|c| c.is_ascii_alphanumeric() || c == '_') && !s.chars().next().unwrap().is_ascii_digit();
        let rc: Vec<String> = c.rules.iter().filter(|r| ident_ok(r)).map(|r| format!("(\"{}\", {}::R_{})", r, ymod, r.to_uppercase())).collect();
        let tc: Vec<String> = c.lex_names.iter().filter(|r| ident_ok(r)).map(|r| format!("(\"{}\", {}::N_{})", r, lmod, r.to_uppercase())).collect();
        writeln!(code, "pub const RULE_CONSTS: &[(&str, u32)] = &[{}];", rc.join(", ")).ok();
        writeln!(code, "pub const TOK_CONSTS: &[(&str, u32)] = &[{}];", tc.join(", ")).ok();
        writeln!(code, "}}").ok();
        writeln!(
            infos,
            "CaseInfo {{ name: {:?}, y: {:?}, l: {:?}, kind: {:?}, recoverer: {:?}, alphabet: {:?}, maxlen: {}, param: {}, lflags: &{:?}, lexerdef: case{i}::lexerdef, parse: case{i}::parse, token_epp: case{i}::token_epp, rule_consts: case{i}::RULE_CONSTS, tok_consts: case{i}::TOK_CONSTS, generated: include_str!(concat!(env!(\"OUT_DIR\"), \"/case{i}.y.rs\")) }},",
            c.name, c.y, c.l, c.kind, c.recoverer, c.alphabet, c.maxlen, c.param, c.lflags, i = i
        )
        .ok();
    }
    infos.push_str("] }\n");
    failed.push_str("];\n");
    code.push_str(&infos);
    code.push_str(&failed);
    code.push_str("}\n");
    // the schedule-exploration variant of case 0's parser: the lazily initialised parser data is
    // re-bound from std's OnceLock to an instrumented stand-in with the same API
    let gen0 = std::fs::read_to_string(out.join("case0.y.rs")).unwrap();
    let n_once = gen0.matches("::std::sync::OnceLock").count();
    let shim = gen0.replace("::std::sync::OnceLock", "crate::shim::OnceLock").replace("mod case0_y", "mod sched_y");
    std::fs::write(out.join("sched.y.rs"), shim).unwrap();
    if n_once == 0 {
        code.push_str("pub mod sched {\npub const ONCELOCK_MENTIONS: usize = 0;\npub fn parse<'a, 'b>(_lexer: &'a dyn lrpar::NonStreamingLexer<'b, lrlex::DefaultLexerTypes<u32>>) -> String { String::new() }\n}\n");
    } else {
    code.push_str(&format!("pub mod sched {{\n#![allow(unused, clippy::all, deprecated)]\ninclude!(concat!(env!(\"OUT_DIR\"), \"/sched.y.rs\"));\npub const ONCELOCK_MENTIONS: usize = {};\npub fn parse<'a, 'b>(lexer: &'a dyn lrpar::NonStreamingLexer<'b, lrlex::DefaultLexerTypes<u32>>) -> String {{ let (t, e) = sched_y::parse(lexer); format!(\"{{:?}} {{}}\", t, e.len()) }}\n}}\n", n_once));
    }
    std::fs::write(out.join("cases.rs"), code).unwrap();
}

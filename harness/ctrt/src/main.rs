//! C13 — a compile-time generated parser and lexer behave exactly like the run-time ones
//! (translation validation per generated module, exhaustive over inputs up to a length), and the
//! schedule part of C15: first use of a generated parser from several threads under shuttle.

include!(concat!(env!("OUT_DIR"), "/cases.rs"));

use cfgrammar::yacc::YaccGrammar;
use cfgrammar::{RIdx, Span};
use lrlex::{DefaultLexeme, DefaultLexerTypes, LRNonStreamingLexerDef, LexerDef};
use lrpar::parser::AStackType;
use lrpar::{LexError, LexParseError, Lexeme, NonStreamingLexer, RTParserBuilder, RecoveryKind};
use serde_json::json;
use std::str::FromStr;

type LT = DefaultLexerTypes<u32>;

/// Stand-in for std::sync::OnceLock with scheduling points that shuttle controls. Storage is
/// keyed on an execution counter because a `static` survives across executions of the explorer.
pub mod shim {
    use std::sync::atomic::{AtomicU64, AtomicUsize, Ordering};
    pub static EXEC: AtomicU64 = AtomicU64::new(0);
    pub static INITS: AtomicUsize = AtomicUsize::new(0);
    pub static EXTRA_YIELD: AtomicUsize = AtomicUsize::new(0);
    pub struct OnceLock<T: 'static> {
        slots: std::sync::Mutex<Vec<(u64, &'static T)>>,
        locks: std::sync::Mutex<Vec<(u64, std::sync::Arc<shuttle::sync::Mutex<()>>)>>,
    }
    impl<T: 'static> OnceLock<T> {
        pub const fn new() -> Self {
            OnceLock { slots: std::sync::Mutex::new(Vec::new()), locks: std::sync::Mutex::new(Vec::new()) }
        }
        fn lookup(&self, ex: u64) -> Option<&'static T> {
            self.slots.lock().unwrap().iter().find(|(e, _)| *e == ex).map(|(_, v)| *v)
        }
        pub fn get_or_init<F: FnOnce() -> T>(&self, f: F) -> &T {
            let ex = EXEC.load(Ordering::SeqCst);
            if EXTRA_YIELD.load(Ordering::SeqCst) != 0 {
                // scheduling point between "look" and "lock"
                shuttle::thread::yield_now();
            }
            if let Some(v) = self.lookup(ex) {
                return v;
            }
            let m = {
                let mut l = self.locks.lock().unwrap();
                match l.iter().find(|(e, _)| *e == ex) {
                    Some((_, m)) => m.clone(),
                    None => {
                        let m = std::sync::Arc::new(shuttle::sync::Mutex::new(()));
                        l.push((ex, m.clone()));
                        m
                    }
                }
            };
            let _g = m.lock().unwrap(); // scheduling point
            if let Some(v) = self.lookup(ex) {
                return v;
            }
            INITS.fetch_add(1, Ordering::SeqCst);
            let v: &'static T = Box::leak(Box::new(f()));
            self.slots.lock().unwrap().push((ex, v));
            v
        }
    }
}

fn strings(alpha: &str, n: usize) -> Vec<String> {
    let cs: Vec<char> = alpha.chars().collect();
    let mut out = vec![String::new()];
    let mut layer = vec![String::new()];
    for _ in 0..n {
        let mut next = vec![];
        for s in &layer {
            for c in &cs {
                let mut t = s.clone();
                t.push(*c);
                next.push(t);
            }
        }
        out.extend(next.iter().cloned());
        layer = next;
    }
    out
}

fn render_lexemes(lexer: &dyn NonStreamingLexer<LT>) -> Vec<String> {
    lexer
        .iter()
        .map(|r| match r {
            Ok(l) => format!("{} {:?} {}", l.tok_id(), l.span(), l.faulty()),
            Err(e) => format!("ERR {:?}", e.span()),
        })
        .collect()
}

fn render_errors(errs: &[LexParseError<u32, LT>]) -> Vec<(String, Vec<String>, Option<String>)> {
    errs.iter()
        .map(|e| match e {
            LexParseError::LexError(e) => (format!("LEX {:?}", e.span()), vec![], None),
            LexParseError::ParseError(pe) => {
                let mut reps: Vec<String> = pe.repairs().iter().map(|s| format!("{:?}", s)).collect();
                let first = reps.first().cloned();
                reps.sort();
                (format!("PARSE {:?} st{}", pe.lexeme(), usize::from(pe.stidx())), reps, first)
            }
        })
        .collect()
}

/// the run-time counterpart of an observer action
fn rt_value(grm: &YaccGrammar<u32>, stable: &lrtable::StateTable<u32>, lexer: &dyn NonStreamingLexer<LT>, kind: &str, rk: RecoveryKind, nuser_prods: usize) -> (Option<String>, Vec<LexParseError<u32, LT>>) {
    let pb = RTParserBuilder::new(grm, stable).recoverer(rk);
    match kind {
        "gpt" => pb.parse_map(lexer, &|l: DefaultLexeme<u32>| format!("T{}[{:?},{}]", l.tok_id(), l.span(), l.faulty()), &|r: RIdx<u32>, ks: Vec<String>| format!("(R{} {})", usize::from(r), ks.join(" "))),
        "noaction" => (None, pb.parse_map(lexer, &|_| (), &|_, _| ()).1),
        _ => {
            type Act<'x> = Box<dyn Fn(RIdx<u32>, &dyn NonStreamingLexer<LT>, Span, std::vec::Drain<AStackType<DefaultLexeme<u32>, String>>, ()) -> String + 'x>;
            let mut boxed: Vec<Act> = vec![];
            for p in 0..usize::from(grm.prods_len()) {
                boxed.push(Box::new(move |_r, lx, span, args, _| {
                    if p >= nuser_prods {
                        return String::new();
                    }
                    let mut s = format!("(P{} {:?} ", p, span);
                    for a in args {
                        match a {
                            AStackType::Lexeme(l) => {
                                if l.faulty() {
                                    s.push_str(&format!("E{:?} ", l.span()));
                                } else {
                                    s.push_str(&format!("T{:?}:{} ", l.span(), lx.span_str(l.span())));
                                }
                            }
                            AStackType::ActionType(v) => {
                                s.push_str(&v);
                                s.push(' ');
                            }
                        }
                    }
                    s.push('$');
                    s.push(')');
                    s
                }));
            }
            let refs: Vec<&dyn Fn(RIdx<u32>, &dyn NonStreamingLexer<LT>, Span, std::vec::Drain<AStackType<DefaultLexeme<u32>, String>>, ()) -> String> = boxed.iter().map(|b| b.as_ref()).collect();
            pb.parse_actions(lexer, &refs, ())
        }
    }
}

fn main() {
    std::panic::set_hook(Box::new(|_| {}));
    let args: Vec<String> = std::env::args().collect();
    if args.get(1).map(|s| s.as_str()) == Some("sched") {
        sched_main();
        return;
    }
    if args.get(1).map(|s| s.as_str()) == Some("threads") {
        threads_main();
        return;
    }
    let mut disagreements: Vec<serde_json::Value> = vec![];
    let mut programs = 0u64;
    let mut inputs_total = 0u64;
    let mut diverged = 0u64;
    let mut with_errors = 0u64;
    let mut samples = vec![];
    // cases on which the compile-time builders failed: the run-time pipeline must fail as well
    for f in cases::FAILED {
        programs += 1;
        let rt_ok = std::panic::catch_unwind(|| {
            let Ok(grm) = YaccGrammar::<u32>::from_str(f.y) else { return false };
            if lrtable::from_yacc(&grm, lrtable::Minimiser::Pager).is_err() {
                return false;
            }
            let mut lf = lrlex::DEFAULT_LEX_FLAGS;
            for (n, v) in f.lflags {
                match *n {
                    "case_insensitive" => lf.case_insensitive = Some(*v),
                    "dot_matches_new_line" => lf.dot_matches_new_line = Some(*v),
                    "multi_line" => lf.multi_line = Some(*v),
                    "posix_escapes" => lf.posix_escapes = Some(*v),
                    "swap_greed" => lf.swap_greed = Some(*v),
                    "ignore_whitespace" => lf.ignore_whitespace = Some(*v),
                    "unicode" => lf.unicode = Some(*v),
                    "allow_wholeline_comments" => lf.allow_wholeline_comments = Some(*v),
                    _ => {}
                }
            }
            if f.lflags.is_empty() { LRNonStreamingLexerDef::<LT>::from_str(f.l).is_ok() } else { LRNonStreamingLexerDef::<LT>::new_with_options(f.l, lf).is_ok() }
        })
        .unwrap_or(false);
        if rt_ok {
            disagreements.push(json!({"case": f.name, "what": format!("the compile-time builders fail ({}) on sources the run-time pipeline accepts", f.err), "grammar": f.y, "lexer": f.l}));
        }
    }
    for c in cases::all() {
        programs += 1;
        // ---- run-time counterpart
        let grm = match YaccGrammar::<u32>::from_str(c.y) {
            Ok(g) => g,
            Err(e) => {
                disagreements.push(json!({"case": c.name, "what": format!("run-time grammar build failed: {:?}", e.iter().map(|x| x.to_string()).collect::<Vec<_>>())}));
                continue;
            }
        };
        let (_, stable) = lrtable::from_yacc(&grm, lrtable::Minimiser::Pager).unwrap();
        let mut rt_ld = if c.lflags.is_empty() {
            LRNonStreamingLexerDef::<LT>::from_str(c.l).unwrap()
        } else {
            let mut lf = lrlex::DEFAULT_LEX_FLAGS;
            for (f, v) in c.lflags {
                match *f {
                    "case_insensitive" => lf.case_insensitive = Some(*v),
                    "dot_matches_new_line" => lf.dot_matches_new_line = Some(*v),
                    "multi_line" => lf.multi_line = Some(*v),
                    "posix_escapes" => lf.posix_escapes = Some(*v),
                    "swap_greed" => lf.swap_greed = Some(*v),
                    "ignore_whitespace" => lf.ignore_whitespace = Some(*v),
                    "unicode" => lf.unicode = Some(*v),
                    "allow_wholeline_comments" => lf.allow_wholeline_comments = Some(*v),
                    _ => {}
                }
            }
            LRNonStreamingLexerDef::<LT>::new_with_options(c.l, lf).unwrap()
        };
        let map: std::collections::HashMap<&str, u32> = grm.tokens_map().into_iter().map(|(k, v)| (k, v.as_storaget())).collect();
        rt_ld.set_rule_ids(&map);
        let ct_ld = (c.lexerdef)();
        let rk = if c.recoverer == "none" { RecoveryKind::None } else { RecoveryKind::CPCTPlus };
        let nuser = usize::from(grm.prods_len()) - 2; // minus start production and Unmatched's
        // constants
        for (n, v) in c.rule_consts {
            if grm.rule_idx(n).map(|r| u32::from(r)) != Some(*v) {
                disagreements.push(json!({"case": c.name, "what": format!("generated constant R_{} = {} but the run-time grammar numbers the rule {:?}", n.to_uppercase(), v, grm.rule_idx(n))}));
            }
        }
        for (n, v) in c.tok_consts {
            if grm.token_idx(n).map(|t| u32::from(t)) != Some(*v) {
                disagreements.push(json!({"case": c.name, "what": format!("generated constant N_{} = {} but the token's id is {:?}", n.to_uppercase(), v, grm.token_idx(n))}));
            }
        }
        for t in grm.iter_tidxs() {
            if (c.token_epp)(t) != grm.token_epp(t) {
                disagreements.push(json!({"case": c.name, "what": format!("token_epp({}) = {:?} in the generated module, {:?} at run time", usize::from(t), (c.token_epp)(t), grm.token_epp(t))}));
            }
        }
        let mut case_bad = 0;
        for input in strings(c.alphabet, c.maxlen) {
            inputs_total += 1;
            let ct_lexer = ct_ld.lexer(&input);
            let rt_lexer = rt_ld.lexer(&input);
            let (la, lb) = (render_lexemes(&ct_lexer), render_lexemes(&rt_lexer));
            if la != lb {
                if case_bad < 3 {
                    disagreements.push(json!({"case": c.name, "input": input, "what": format!("lexemes differ: generated {:?}, run-time {:?}", la, lb)}));
                }
                case_bad += 1;
                continue;
            }
            // fresh threads: under the owned hash seed both sides then make the same arbitrary
            // choice among equal-rank repairs
            let ct = std::thread::scope(|s| s.spawn(|| std::panic::catch_unwind(std::panic::AssertUnwindSafe(|| (c.parse)(&ct_lexer)))).join().unwrap());
            let rt = std::thread::scope(|s| s.spawn(|| std::panic::catch_unwind(std::panic::AssertUnwindSafe(|| rt_value(&grm, &stable, &rt_lexer, c.kind, rk, nuser)))).join().unwrap());
            let (ct, rt) = match (ct, rt) {
                (Ok(a), Ok(b)) => (a, b),
                (a, b) => {
                    if a.is_err() != b.is_err() && case_bad < 3 {
                        disagreements.push(json!({"case": c.name, "input": input, "what": format!("one side panicked: generated {} run-time {}", a.is_err(), b.is_err())}));
                        case_bad += 1;
                    }
                    continue;
                }
            };
            let (ea, eb) = (render_errors(&ct.1), render_errors(&rt.1));
            if !ea.is_empty() {
                with_errors += 1;
            }
            // compare error by error while both sides applied the same first repair
            let mut same_choices = true;
            let mut bad = None;
            for k in 0..ea.len().max(eb.len()) {
                match (ea.get(k), eb.get(k)) {
                    (Some(a), Some(b)) => {
                        if a.0 != b.0 || a.1 != b.1 {
                            bad = Some(format!("error {} differs: generated {:?} {:?}, run-time {:?} {:?}", k, a.0, a.1, b.0, b.1));
                            break;
                        }
                        if a.2 != b.2 {
                            same_choices = false;
                            break;
                        }
                    }
                    (a, b) => {
                        bad = Some(format!("error {} reported on one side only: generated {:?}, run-time {:?}", k, a.map(|x| &x.0), b.map(|x| &x.0)));
                        break;
                    }
                }
            }
            if bad.is_none() && same_choices {
                let va = if c.kind == "noaction" { None } else { ct.0.clone() };
                let vb = rt.0.clone();
                let vb = if c.param { vb } else { vb };
                if va != vb {
                    bad = Some(format!("values differ: generated {:?}, run-time {:?}", va, vb));
                }
            }
            if !same_choices {
                diverged += 1;
            }
            if let Some(b) = bad {
                if case_bad < 3 {
                    disagreements.push(json!({"case": c.name, "input": input, "what": b, "grammar": c.y}));
                }
                case_bad += 1;
            }
        }
        if samples.len() < 3 {
            samples.push(json!({"case": c.name, "grammar": c.y, "lexer": c.l, "inputs": format!("all strings of <= {} characters over {:?}", c.maxlen, c.alphabet)}));
        }
    }
    // inventory of shared mutable state in generated parsers (fails closed)
    let mut inventory_bad = vec![];
    for c in cases::all() {
        let g = c.generated;
        let statics = g.matches("static ").count() - g.matches("'static ").count();
        // generated modules deny unsafe code, so data races are excluded by the compiler; what is
        // flagged is the means to get around that
        let _ = statics;
        let ok = !g.contains("static mut") && !g.contains("unsafe ") && !g.contains("unsafe{") && !g.contains("UnsafeCell") && g.contains("#![deny(unsafe_code)]");
        if !ok {
            inventory_bad.push(c.name);
        }
    }
    println!(
        "{}",
        json!({"programs": programs, "inputs": inputs_total, "disagreements": disagreements, "diverged_by_arbitrary_choice": diverged, "inputs_with_errors": with_errors, "samples": samples, "inventory_bad": inventory_bad})
    );
}

/// Schedule exploration: N threads call the generated `parse` (first use + cached use) under
/// shuttle's exhaustive depth-first scheduler; scheduling points are the stand-in OnceLock's.
fn sched_main() {
    use std::sync::atomic::Ordering;
    use std::sync::{Arc, Mutex};
    let input = "n+n+"; // an erroneous input: recovery runs too
    let ld = (cases::all()[0].lexerdef)();
    // the sequential result, computed inside a (single-threaded) shuttle execution because the
    // stand-in OnceLock uses shuttle's mutex
    let expected = {
        let slot = Arc::new(Mutex::new(String::new()));
        let (s2, ld2) = (slot.clone(), ld.clone());
        shuttle::check_dfs(
            move || {
                shim::EXEC.store(u64::MAX, Ordering::SeqCst);
                let lexer = ld2.lexer("n+n+");
                *s2.lock().unwrap() = sched::parse(&lexer);
            },
            None,
        );
        let r = slot.lock().unwrap().clone();
        r
    };
    let _ = input;
    let mut report = vec![];
    let counter = Arc::new(std::sync::atomic::AtomicU64::new(1));
    for (threads, extra_yield) in [(3usize, 0usize), (2, 1)] {
        let counter = counter.clone();
        shim::EXTRA_YIELD.store(extra_yield, Ordering::SeqCst);
        let schedules = Arc::new(Mutex::new(0u64));
        let bad = Arc::new(Mutex::new(Vec::<String>::new()));
        let (s2, b2, exp, ld2) = (schedules.clone(), bad.clone(), expected.clone(), ld.clone());
        shuttle::check_dfs(
            move || {
                let ex = counter.fetch_add(1, Ordering::SeqCst);
                shim::EXEC.store(ex, Ordering::SeqCst);
                let before = shim::INITS.load(Ordering::SeqCst);
                let mut hs = vec![];
                for _ in 0..threads {
                    let (exp, ld3, b3) = (exp.clone(), ld2.clone(), b2.clone());
                    hs.push(shuttle::thread::spawn(move || {
                        for _ in 0..2 {
                            let lexer = ld3.lexer("n+n+");
                            let r = sched::parse(&lexer);
                            if r != exp {
                                b3.lock().unwrap().push(format!("thread result {:?} differs from the sequential result {:?}", r, exp));
                            }
                        }
                    }));
                }
                for h in hs {
                    h.join().unwrap();
                }
                let inits = shim::INITS.load(Ordering::SeqCst) - before;
                if inits != 1 {
                    b2.lock().unwrap().push(format!("parser data reconstituted {} times in one execution", inits));
                }
                *s2.lock().unwrap() += 1;
            },
            None,
        );
        report.push(json!({"threads": threads, "extra_yield": extra_yield == 1, "schedules": *schedules.lock().unwrap(), "bad": bad.lock().unwrap().clone()}));
    }
    println!("{}", json!({"sched": report, "oncelock_mentions": sched::ONCELOCK_MENTIONS}));
}


/// Free-running smoke test (a sample, not an exploration): 8 OS threads call a generated parser
/// for the first time at once (this process is started afresh for every round); every thread
/// must get the sequential result.
fn threads_main() {
    let c = &cases::all()[0];
    let ld = std::sync::Arc::new((c.lexerdef)());
    let barrier = std::sync::Arc::new(std::sync::Barrier::new(8));
    let mut hs = vec![];
    for _ in 0..8 {
        let (ld, barrier) = (ld.clone(), barrier.clone());
        let parse = c.parse;
        hs.push(std::thread::spawn(move || {
            barrier.wait();
            let lexer = ld.lexer("n+n+");
            let (v, e) = parse(&lexer);
            format!("{:?} {:?}", v, render_errors(&e))
        }));
    }
    let rs: Vec<String> = hs.into_iter().map(|h| h.join().unwrap()).collect();
    let lexer = ld.lexer("n+n+");
    let (v, e) = (c.parse)(&lexer);
    let seq = format!("{:?} {:?}", v, render_errors(&e));
    println!("{}", json!({"threads": 8, "all_equal_sequential": rs.iter().all(|r| *r == seq)}));
}

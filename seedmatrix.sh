#!/bin/bash
# usage: seedmatrix.sh [seed ids...]     (default: every directory under /verif/seeded)
# For each stored seeded change: apply it to /repo, run the quick check of the property it breaks
# (must exit 1 with a VIOLATION line), replay the first violation (must exit 1 again), revert /repo,
# replay the same file on the unchanged tree (must exit 0). Writes /verif/seeded/RESULTS.md.
# Never leaves /repo modified (trap).
cd /verif || exit 2
trap 'git -C /repo checkout -- . 2>/dev/null; git -C /repo clean -fdq -- cfgrammar lrtable lrpar lrlex 2>/dev/null' EXIT
if [ -n "$(git -C /repo status --short)" ]; then echo "/repo is not clean"; exit 2; fi
SEEDS="$@"; [ -z "$SEEDS" ] && SEEDS=$(ls seeded | grep -E '^C[0-9]+-s[0-9]+$')
OUT=seeded/RESULTS.md
{
echo "# Seeded changes against the registered quick checks"
echo
echo "Produced by ./seedmatrix.sh ($(date -u +%Y-%m-%d)); /repo at $(git -C /repo rev-parse --short HEAD)."
echo
echo "| seed | check | with change | replay with change | replay on the unchanged tree |"
echo "|---|---|---|---|---|"
} > $OUT.tmp
rc=0
for s in $SEEDS; do
  prop=${s%%-*}
  P=seeded/$s/patch.diff
  git -C /repo apply --check /verif/$P 2>/dev/null || { echo "| $s | $prop | patch does not apply | | |" >> $OUT.tmp; rc=1; continue; }
  git -C /repo apply /verif/$P
  log=$(mktemp)
  cp evidence/$prop.json target/evidence_$prop.bak 2>/dev/null   # evidence written on a modified tree is discarded
  timeout 3000 ./check $prop quick > $log 2>&1; e1=$?
  nviol=$(grep -c '^VIOLATION' $log)
  rp=$(grep -m1 '^VIOLATION' $log | sed -e 's/.*replay=//')
  e2=-; e3=-
  if [ -n "$rp" ] && [ -f "$rp" ]; then
    cp "$rp" /verif/target/seedmatrix_replay.json
    timeout 3000 ./check $prop quick --replay /verif/target/seedmatrix_replay.json > $log.r 2>&1; e2=$?
  fi
  git -C /repo apply -R /verif/$P 2>/dev/null; git -C /repo checkout -- .
  if [ -f /verif/target/seedmatrix_replay.json ] && [ "$e2" != "-" ]; then
    timeout 3000 ./check $prop quick --replay /verif/target/seedmatrix_replay.json > $log.u 2>&1; e3=$?
  fi
  rm -f /verif/target/seedmatrix_replay.json
  [ -f target/evidence_$prop.bak ] && mv target/evidence_$prop.bak evidence/$prop.json
  echo "| $s | $prop quick | exit $e1, $nviol VIOLATION lines | exit $e2 | exit $e3 |" >> $OUT.tmp
  echo "$s: check exit $e1 ($nviol violations) replay-with $e2 replay-without $e3"
  [ "$e1" = 1 ] || rc=1
  rm -f $log $log.r $log.u
done
# merge: rows of seeds that were not run this time are kept from the existing file
python3 - "$OUT" "$OUT.tmp" <<'PY'
import sys,os
out,tmp=sys.argv[1:3]
new=open(tmp).read().splitlines()
rows={l.split('|')[1].strip():l for l in new if l.startswith('| C')}
if os.path.exists(out):
    for l in open(out).read().splitlines():
        if l.startswith('| C'):
            rows.setdefault(l.split('|')[1].strip(), l)
head=[l for l in new if not l.startswith('| C')]
text="\n".join(head+[rows[k] for k in sorted(rows)])+"\n"
open(out,'w').write(text)
os.remove(tmp)
PY
exit $rc

#!/bin/bash
# usage: seedtest.sh <ID> <checks...>   applies /tmp/seed/<ID>/patch.diff to /repo, runs the given checks (quick), reverts
ID=$1; shift
P=/tmp/seed/$ID/patch.diff
[ -f /verif/seeded/$ID/patch.diff ] && P=/verif/seeded/$ID/patch.diff
cd /repo && git apply --check $P || { echo "patch does not apply"; exit 2; }
git -C /repo apply $P
for c in "$@"; do
  prop=${c%%:*}; tier=${c##*:}; [ "$tier" = "$prop" ] && tier=quick
  echo "=== $prop $tier (with seeded change $ID)"
  cp /verif/evidence/$prop.json /verif/target/evidence_$prop.bak 2>/dev/null   # evidence written on a modified tree is discarded
  ( cd /verif && timeout 3000 ./check $prop $tier 2>&1 | grep -E "^(VIOLATION|OK|FAILED|MACHINERY|KNOWN|  )" | cut -c1-260 | awk 'NR<=6 {print} {last=$0} END {if (NR>6) print last}' )
  [ -f /verif/target/evidence_$prop.bak ] && mv /verif/target/evidence_$prop.bak /verif/evidence/$prop.json
done
# revert exactly what was applied (a patch may add files, which checkout alone would leave behind)
git -C /repo apply -R $P 2>/dev/null; git -C /repo checkout -- .; git -C /repo status --short | head -3

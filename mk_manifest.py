#!/usr/bin/env python3
"""Regenerates /verif/MANIFEST.json from the table below (kept as a script so that the manifest stays
valid and consistent while checks are added). Run: python3 mk_manifest.py"""
import json, subprocess

ALL = ["C%02d" % i for i in range(1, 21)]

# id -> (level category, technique, level text, level note, design ref)
CHECKS = {
    "C13": (
        "translation_validation",
        "bounded-exhaustive enumeration of (grammar, lexer, builder settings) cases, each compiled by the real compile-time builders + rustc and compared with the run-time pipeline on every input up to a length",
        "The ctrt crate's build script runs the real CTLexerBuilder / CTParserBuilder of the working tree over: the four yacc kinds x two recoverers on two base grammars, every single deviation (thorough: the full product) of serialisation format, Rust edition (2015/2018/2021) and visibility (private, pub, pub(crate), pub(super), pub(self), pub(in path)), a %parse-param case, a family of grammars (empty-production idioms, operator skeletons, the seed grammars) whose generated actions are observers (each action returns an S-expression built from $1..$n with Ok / Err lexemes, $span, $lexer.span_str and a literal $$), a lexer-centred case (flags in the %grmtools section, exclusive start state with push / pop, skip rules, non-ASCII token name) a lexer-flag family (each of seven flags set to its non-default value once through the %grmtools section and once through the builder) the base grammars with every token declared %avoid_insert, and the observer-action grammars again with every multi-production rule written in two pieces (A: p1; ...; A: p2 | p3; - productions of one rule not numbered consecutively). A case on which the real builders fail, or whose generated module rustc rejects, is compared with the run-time pipeline's verdict on the same sources (a verdict, not a build failure of the harness). rustc compiles all generated modules; for every module and every input of up to 3-5 characters over the case's alphabet the generated lexer and parser are compared with LRNonStreamingLexerDef::from_str + set_rule_ids and RTParserBuilder on the same sources: same lexemes, same R_* / N_* constants and token_epp, same value (generic tree, or observer S-expression against run-time recording closures), same errors with the same repair sets. A syntactic inventory of every generated parser fails closed on any shared mutable state other than the one OnceLock.",
        "rustc, quote, syn, prettyplease are trusted. Eco cannot be built at compile time. Later errors are compared only while both sides applied the same (arbitrary) first repair.",
        "DESIGN.md 3/C13",
    ),
    "C15": (
        "model_checking",
        "exhaustive enumeration of hash-map iteration orders (process-level hash seed owned through a getrandom shim, seeds enumerated until every permutation of every observable map occurred) x specifications; digests of all public queries and of generated code compared across processes; thread schedules of first use explored with shuttle in the ctrt crate",
        "The harness re-executes itself under 48 (thorough 256) different, owned hash seeds. In each process every specification (a declaration-rich grammar in three yacc kinds incl. Eco with 3-4 implicit tokens, 3 %avoid_insert / precedence / %epp tokens, states with 3 outgoing edges and several conflicts; every grammar of a universe; the seed grammars; families F-gc, F-lalr4 and part of F-pager: tables whose construction strands states or splits off several states while re-processing, i.e. the places where the table construction walks hash maps of edges) is turned into grammar, state graph and table on a fresh thread, three grammar/lexer pairs are run through the real compile-time builders, and a token map with names that differ only in case (plus a rename map) through the token-map builder. The digest of the complete query dump (conflicts as a set) and of the generated files must be identical in all processes. For every randomly seeded map reachable through the public API (ast.implicit_tokens, avoid_insert, precs, epp, graph edges of 3-edge states) the iteration orders seen are recorded and the run is only reported exhaustive when every permutation of every such map occurred. Thread schedules: one real generated parser module is re-bound at build time from ::std::sync::OnceLock to a stand-in with the same API whose lock operations are shuttle scheduling points; shuttle's depth-first scheduler explores ALL interleavings of 3 threads each calling parse twice (first + cached use; 4666 schedules) and of 2 threads with an extra scheduling point between the fast-path look and the lock (659 schedules): every thread must get the sequential result and the parser data must be reconstituted exactly once per execution.",
        "Orders of maps that are never exposed cannot be observed (same seeds run). std::sync::OnceLock is trusted.",
        "DESIGN.md 3/C15",
    ),
    "C18": (
        "model_checking",
        "breadth-first search over histories of {edit grammar, edit lexer, change one builder option, build} executed on the real builders (one child process per build), with canonical-state de-duplication and a clean-build differential oracle",
        "State = grammar version (6: two token sets, other productions, conflicts, syntax error, warning), lexer version (4: two valid, invalid, token missing), eleven builder options, contents and logical modification times of the two generated files. All histories of up to 4 events (thorough 6, with the edit-in-the-same-tick deviation) and up to 3 (4) builds are explored breadth-first, de-duplicated on the canonical state, each build executed by the real CTParserBuilder / CTLexerBuilder in its own process (both as two separate steps and as the lexer builder driving the parser builder). After every build: outcome and generated files (timestamps blanked) must equal those of a clean build of the same sources and settings in an empty directory; when the clean build fails nothing of an earlier version may be left; regenerated() must be false and the file untouched exactly when neither source nor settings changed since the last successful build; an identical lexer output must not be rewritten. Phase 2 starts from every (grammar, lexer) pair with the reporting options switched off, and from a 220-token grammar / lexer pair whose recorded settings string is several kilobytes long, with the edits that land in the same tick as the generated file (equal modification times) included, and explores build ; one change ; build, so that caches written under other settings are reached.",
        "Modification times are logical and set by the harness (the builders only read them); clocks running backwards are out of scope.",
        "DESIGN.md 3/C18",
    ),
    "C14": (
        "model_checking",
        "bounded-exhaustive enumeration of specifications x storage widths x integer encodings; serialise + reconstitute exactly as generated parsers do; complete public query dump and all short parses compared",
        "Every specification of the C10 space on its default layout (every single optional declaration, all together, all five yacc kinds, non-ASCII names and action text) plus a wide family whose bit vectors are 1..2 words long (1, 2, 30-33, 62-65, 127-130, 200, 253-257, 300 tokens; precedence levels, %epp and %avoid_insert spread over all of them), built with u8, u16 and u32 storage, serialised with the fixed and the variable integer encoding through the very calls the compile-time builder makes and read back through lrpar::ctbuilder::_reconstitute. The complete public query dump (every accessor of the grammar for every index; action, goto, state_actions, state_shifts, core_reduces, reduce_only_state of every state; start state; both conflict lists with their pretty-printed form) must be identical, and so must the result of parsing every input of up to 3-4 lexemes.",
        "Parses are only compared on (table, input) pairs on which the plain LR loop returns.",
        "DESIGN.md 3/C14",
    ),
    "C20": (
        "model_checking",
        "exhaustive enumeration of a grammar universe x {u8,u16,u32} plus boundary families around 255 / 65535 built in watched child processes; sizes, indices, query dumps and parses compared across widths",
        "Every grammar of the quick universe is built in the three widths and the complete query dump (grammar, table, state graph) and all short parses must agree. Nine boundary families (c rules, c tokens, c productions, one production of c symbols, an Eco production whose compiled length - symbols plus implicit-token references - is c while a longer source production stays short, an Eco grammar with c productions in total (implicit rules included), exactly c LR states, a lexer of c rules, a lexer of c rules whose last 12 have no name) for c = 250..260 (thorough also 65530..65540) are built in every width inside a watched child: either the build succeeds, reports exactly the model's sizes, hands out only in-range indices and agrees with the u32 build, or it panics with one of the documented refusals; acceptance must be monotone in the width. Anything else (other panic, hang, wrapped size) is a violation.",
        "State numbers may differ between widths only as far as known finding C20-b allows (identical after canonical renumbering). u32 boundaries are out of reach.",
        "DESIGN.md 3/C20",
    ),
    "C10": (
        "model_checking",
        "bounded-exhaustive enumeration of abstract grammar specifications x concrete renderings; every accessor compared with the abstract specification, spans sliced out of the text, digest equal across all renderings",
        "Abstract specification = grammar (all reachable grammars of a small universe + the seed grammars) x every set of <= 2 of twelve optional declarations (%token, %start, precedence lines, %prec, %epp with escaped quotes, %avoid_insert, %expect, %expect-rr, %expect-unused with an unused rule, %parse-param, %parse-generics, programs section) x five yacc kinds (action types and actions with nested braces and non-ASCII text where the kind has them; %implicit_tokens for Eco). Each is rendered in ~200 layouts: three quoting styles, nine gap styles (blank, newline, tab, // comment, /* */ comment, multi-line comment whose second line starts with a slash, /** doc **/, the empty comment /**/, a comment with stars and slashes inside), declaration order, %empty, %grmtools header (then parsed with from_str), and - for a third of the layouts - every multi-production rule written in two pieces. For every rendering every accessor named in the property is compared with the abstract specification (rule order, productions in source order, symbols, token set and names, dense numbering and range of every index, start production, one unnamed end-of-input token, precedences by relative level, %prec, %epp, avoid-insert, expect counts, action text and types, parse-param, generics, programs, the documented Eco rewrite), every rule / token / production span must slice exactly the defining text, and all renderings of one specification must give the same digest.",
        "Action code and types are compared modulo comments and whitespace. The action span is only required to lie at its action (the repository's test pins its exact offsets).",
        "DESIGN.md 3/C10",
    ),
    "C11": (
        "model_checking",
        "bounded-exhaustive enumeration of abstract lex specifications x renderings; built definition compared field by field and by lexing behaviour with the abstract specification",
        "(a) every rule of 1-2 (thorough 3) atoms from a 20-atom menu (incl. '>', which closes a start-state list) covering every escape class (ordinary, regex-meta, lex-special, class escapes, \\x41, \\b, multi-byte next to an escape, escaped blank, characters that are white space to Unicode but not to lex: NBSP plain and escaped, U+3000) x every optional-escape rendering x both name quotings x with/without a start-state prefix x posix_escapes on/off x with/without a %grmtools section: the built rule must lex every string of <= 3 symbols over a 17-symbol alphabet exactly as the canonical regular expression of the abstract rule does; (b) two-rule specifications over every start-state prefix x target operation x named/skip, rendered with/without section, both quotings, trailing blanks, whole-line comments, via from_str and new_with_options: rules in source order with the written name, start states, target, regex text, distinct ids, declared start states; (c) all 32 settings of five flags given through the section and through new_with_options against a section that says the opposite, observed through behaviour; (d) the span of every rule name and start-state name must slice exactly that name out of the text the user wrote, and the span of each of eleven kinds of error must lie on the offending line, with and without a %grmtools section.",
        "The denotation of every atom is written down by hand in the regex crate's syntax. Regex semantics themselves are the regex crate's.",
        "DESIGN.md 3/C11",
    ),
    "C09": (
        "model_checking",
        "bounded-exhaustive enumeration of lex specifications x id maps x input strings against a direct maximal-munch reference lexer with a plain state stack",
        "Every ordered list of up to 3 rules over a 9-regex menu (overlapping, alternation, repetition, multi-byte, dot) with every named/skip assignment; every list of up to 2 (thorough 3) rules over {a, b, ab} x every start-state prefix (none, inclusive, exclusive, both, INITIAL) x every target operation (none, replace, push, pop on inclusive/exclusive/INITIAL) x named/skip; every three-rule stack-operation specification (push / replace / pop incl. pushing the bottom state onto itself) ; every subset of {case_insensitive, !dot_matches_new_line, !multi_line} on a flag-sensitive menu; a case-folding family (rules k, ks, [a-z], s under both settings of case_insensitive against inputs over {k, s, KELVIN SIGN, LONG S, a}: a case-insensitive match can be longer in the input than in the pattern); each against every input string up to length 5-6 over an alphabet with a two-byte character and a newline. The whole lexeme / error sequence is compared with a reference that re-implements rule activation, longest match, earliest rule on ties, push / pop / replace on a plain (not run-length) stack and the single error at the first unmatched position. set_rule_ids is run with every map over subsets of the rule names plus a foreign name (once with ids far from the rule indices, once with ids 0, 1, .. that coincide with them) and its two result sets and the subsequent lexing are compared.",
        "The meaning of each regular expression is the regex crate's on both sides. Result order of set_rule_ids as pinned by the repository's own test.",
        "DESIGN.md 3/C09",
    ),
    "C12": (
        "model_checking",
        "bounded-exhaustive enumeration of input strings (all strings over a lexical-class alphabet up to a length; context prefix x all short strings; all single edits of seeds) through every parser entry point in watched child processes",
        "For each of nine entry points (ASTWithValidityInfo::new + YaccGrammar::new for the five yacc kinds, ASTWithValidityInfo/YaccGrammar::from_str, LRNonStreamingLexerDef::from_str, GrmtoolsSectionParser::parse optional/required): every string of up to 3 (thorough 5) symbols over a 39-symbol alphabet with a representative of every lexical class incl. multi-byte characters and every class of white space the parsers distinguish (blank, tab, LF, CR, VT, FF, NEL, line separator, no-break space, left-to-right mark); every one of ~50 context prefixes followed by every string of up to 2 (3) symbols; every truncation and every single-character deletion / substitution / insertion of the seed specifications (hand-written ones - among them a Grmtools grammar whose rules are written in several pieces with a differently spelt type, and the dangling-else idiom with its precedence declaration forgotten - and the repository's examples); decimal strings around 2^8, 2^16, 2^32, 2^64, 2^128 in every numeric position. Oracle: returns within the limit, no panic, a value or a non-empty error list, every span of every error and warning within the text and on character boundaries, and the diagnostic formatter renders it.",
        "Pairs of edits and longer free strings are outside the bound. A timeout is a verdict only after the single input was re-run alone with a longer limit.",
        "DESIGN.md 3/C12",
    ),
    "C19": (
        "model_checking",
        "exhaustive enumeration of all strings up to a length bound x all chunkings x all offsets x all spans against a naive line/column reference",
        "Every string of up to 7 (thorough 12) characters over {a, two-byte e-acute, LF, CR}, every way of feeding it to the cache in up to four pieces (empty pieces included; also with every offset of the text fed so far looked up after each piece), every character-boundary offset and every span on character boundaries; plus 840 texts of 1..70 lines (three line bodies, LF / CR LF, last line terminated or not) fed whole and in two pieces: line number, line start, line/column and line extent are compared with a three-line naive reference and nothing may panic; offsets beyond the text must be refused. For the shorter strings the same is done through LRNonStreamingLexer::{line_col, span_lines_str} (line_col of every span must also equal the cache's own answer for its two ends) and through LexParseError::pp for a real lexing error and a real parsing error placed at every position.",
        "A non-empty span ending exactly on a line start may or may not include that next line (the repository's own test pins 'includes'); the LF of a CR LF pair may carry the CR's column or the next.",
        "DESIGN.md 3/C19",
    ),
    "C08": (
        "model_checking",
        "bounded-exhaustive enumeration of grammars x inputs x {recovery off, on}; parse_actions with recording closures checked against the post-order of the returned value",
        "Every grammar of the universes, the empty-production families (empty productions first / middle / last / only, nested; an empty rule followed by a token followed by more input, so that repairs are inserted right after a zero-length reduction) and the seed grammars, every input up to the bound, with recovery off and (on conflict-free productive tables) on, so that both copies of the reduce code run: one recording closure per production logs production, rule argument, span, argument kinds/values and parameter. From the returned value the expected log is recomputed: exactly one call per tree node in bottom-up left-to-right order, arguments = children in order and of the right kind, span = extent of the derived lexemes (zero-length if none), parameter as passed, and the action-built tree equals parse_map's generic tree.",
        "A span may count or ignore inserted (zero-length, faulty) lexemes at its ends; a production that derived nothing may put its zero-length span anywhere. Tree comparison is skipped (and counted) when the two runs applied different equal-rank repairs.",
        "DESIGN.md 3/C08",
    ),
    "C05": (
        "model_checking",
        "bounded-exhaustive enumeration of grammars x cost vectors x erroneous inputs; every reported repair sequence replayed through an independent LR driver over the public table; differential re-parse of the repaired input",
        "For every grammar of the universes and families (tables with conflicts included; quick tier: plus the 29,242 acyclic conflict tables of U(2,2,2,3,6) with inputs of up to 3 lexemes and unit costs), every cost vector and every input up to the bound, the real CPCT+ parser runs in a watched child process under a deterministic step budget. An independent LR driver over the public action/goto interface reproduces every error configuration (position and state are cross-checked with the reported error), applies every reported sequence of every error and requires three further shifts or acceptance; it then applies the first sequence, predicts the position of the next error, the final outcome, the exact leaves of the returned tree (inserted tokens zero-length, faulty, at the next real lexeme) and, on conflict-free tables, re-parses the repaired input from scratch with recovery off and requires the identical tree.",
        "The from-scratch re-parse is only required on conflict-free tables (elsewhere reductions made under the erroneous lookahead are irrevocable and need not be those of a fresh parse). Parses that do not return are C07's subject.",
        "DESIGN.md 3/C05",
    ),
    "C06": (
        "model_checking",
        "explicit-state exhaustive search over repair sequences (Insert/Delete/Shift moves from the error configuration) as reference for every reported repair set",
        "Same space as C05 plus every %avoid_insert subset on the smallest grammars, plus long inputs on which the ranking window (TRY_PARSE_AT_MOST = 250 lexemes from the error) binds: for every conflict-free productive grammar of <= 3 tokens, sentences of about 270 lexemes (short prefix + one token or a pair of tokens repeated, accepted by the canonical LR(1) reference) with one deletion, insertion or substitution among the first three lexemes that has a one-edit repair at the detection point (84k such inputs in the quick tier). For every reported error an explicit-state search enumerates every edit sequence individually (no merging, no buckets) by increasing cost up to the first cost with a success, ranks the successes by the distance parsing continues, strips trailing shifts and de-duplicates; the reported list must have exactly that cost and be exactly that set, contain no duplicate, no trailing shift, no end-of-input insertion, list %avoid_insert sequences last and shorter sequences first inside each group.",
        "Reference search bounded by cost 12 / 400k nodes per error (cases beyond are counted, never judged). Sequences the implementation reports but that do not replay are attributed to C05.",
        "DESIGN.md 3/C06",
    ),
    "C07": (
        "model_checking",
        "bounded-exhaustive enumeration of acyclic grammars x inputs (incl. repeated-error inputs) under a watched process per grammar; progress and outcome invariants on every returned error list; termination by watchdog + memory limit",
        "Every acyclic grammar of the universes and families, every input up to the bound plus 2-4 fold repetitions of every short input (many independent errors), parsed by the real recovering parser in watched child processes (per-parse progress marks, time and memory limits). Every returned result must have strictly increasing error positions at least three lexemes (or the rest of the input) apart, at most |input|+1 errors, repairs on every error but the last, a value iff every error has a repair, and an Earley-accepted input when there is a value and no error. A parse that does not return is a violation unless explained by the listed known finding (reduction loop in the table, detected by the reference driver and confirmed on the real parser). Deadline pass: the environment answer 'the recovery deadline passes during the search' is forced on every grammar of <= 2 tokens (one more, unmentioned token; inputs w1 u^40 w2; wall-clock budget 1 ms, no step limit); the same invariants must hold, in particular no value and a last error without repairs - never an empty error list.",
        "Grammars whose table has a reduction loop (known finding C07-a) only get the plain-parse screen (thorough tier: the first 40 of them are run in full, each killed parse costing a watchdog timeout and a resubmission). Wall budget replaced by a step budget (H1/H2) except in the deadline pass; all invariants hold whatever the budget; how many parses of the deadline pass actually run out of time depends on the machine (reported, and required to be > 0).",
        "DESIGN.md 3/C07",
    ),
    "C01": (
        "model_checking",
        "bounded-exhaustive enumeration of grammars x token strings; real parser vs Earley recogniser and derivation-tree validator",
        "Every grammar of the listed universes (incl. the one-token universes U(2,1,2,3,7) / U(2,1,2,4,8) / U(2,1,3,3,8), the smallest that contain tables whose construction strands a state) and structured families (F-lalr, F-lalr3: two-item kernels reached over paths of different lengths, F-gc: stranded-state tables with their edit-distance-1 neighbourhoods, F-pager: the stored family of all 23,872 grammars of eight universes up to U(2,2,3,4,8) / U(2,2,2,5,9) - about 110 million grammars, enumerated exhaustively by vcheck --gen-pager-family - whose Pager construction garbage-collects states or creates states while re-processing a changed state, F-wide: skeletons moved to token indices 62-120 and rule indices up to 65, empty-production / chain / ternary / operator skeletons, seed grammars) that table construction accepts is parsed by the real parser on every token string up to the length bound (alphabets of more than five tokens: additionally every sentence of up to 7 lexemes with its prefixes and single-token substitutions, deletions and insertions); every clean acceptance must return a tree that is a derivation of exactly that input from the start rule and must be a sentence according to an independent Earley recogniser; on conflict-free tables acceptance must equal membership in both directions. The references are cross-checked against brute-force language enumeration on each run. The per-state automaton certificate (closure exactness, edge kernels, start kernel, table = automaton) that extends the verdict to all inputs of each grammar is evaluated by C16/C03 on the same grammars.",
        "Inputs longer than the bound and grammars larger than the universes are outside the claim; grammars with derivation cycles are checked at table level only.",
        "DESIGN.md 3/C01",
    ),
    "C02": (
        "model_checking",
        "bounded-exhaustive enumeration of LR(1) grammars x token strings; Pager-minimised automaton vs an independent canonical LR(1) construction and parser",
        "For every grammar of the universes, the LR(1)-not-LALR(1) families (all subsets of the classic counter-example and two variants; every 3-6 production subset of {x,y} {A,B} {a,b,c} with three suffix tokens in both rule orders, so that weakly-compatible, incompatible and subset contexts all occur), family F-lalr3 (for each of the prefixes p, q, r r, s s s either nothing or 'prefix A u | prefix B v' with A: x y; B: x y and every ordered pair u != v of four suffix tokens, optionally 'prefix C' with C: x z: late merges, re-propagation to successors, stranded states), F-lalr4 (two-item kernels one level down with a third party feeding the same successor states: a re-processed state splits off two states in one pass), F-gc, F-pager (stored, see C01), F-wide (incl. the classic counter-example, its mirror image and their neighbours with the 64-bit word boundary at every position relative to their tokens), the seed grammars and their complete edit-distance-1 neighbourhood whose canonical LR(1) automaton is conflict-free: the real construction must report no conflicts and no more states than the canonical automaton, and for every input up to the bound the real parser and the canonical LR(1) parser must return the same tree or fail at the same lexeme.",
        "Late merges that need longer propagation chains than these grammars contain are outside the bound.",
        "DESIGN.md 3/C02",
    ),
    "C04": (
        "model_checking",
        "bounded-exhaustive enumeration of conflict-free productive grammars x rejected inputs; error position vs Earley viable-prefix oracle",
        "For every conflict-free table of a grammar (universes, families incl. unit / nullable chains of depth 1-4 in both definition orders, F-gc, F-wide, F-lalr3 in the thorough tier, seeds, neighbourhoods) whose rules are all productive and every rejected input up to the bound: with recovery off the result must be no value and exactly one error at the first lexeme (or the synthetic end-of-input lexeme, placed at the end of the last lexeme) where the input stops being a viable prefix according to the Earley oracle; with CPCT+ on, the first error must be at the same lexeme.",
        "Viable-prefix oracle = Earley on the productive-pruned grammar, validated against brute-force prefix enumeration.",
        "DESIGN.md 3/C04",
    ),
    "C03": (
        "model_checking",
        "bounded-exhaustive enumeration of grammars x precedence configurations; every (state, token) cell re-derived from the item sets by an independent oracle",
        "Every grammar of the listed universes (incl. U(2,1,2,3,7) / U(2,1,2,4,8)), of the operator-skeleton family, of F-wide (the skeletons with their precedence declarations at token indices 62-120) and of the two-token-production family (ternary / mixfix skeletons, where the last token of a production and the token carrying a precedence differ), under every precedence declaration of <= 2 lines and every single %prec placement - and, whenever there is a precedence line, once more with %epp on every token and once with %epp on the first declared token -, is built with the real table constructor; for every state and token the expected action is re-derived from the closed item sets, the edges and the generator's own precedence model, and the shift/reduce and reduce/reduce lists are compared as multisets with the cells settled by the two default rules; accept/reduce failures are compared with a canonical LR(1) construction.",
        "Item sets and edges are taken as given here (C01/C02/C16 check them). At most 3 precedence levels / 3-way reduce-reduce inside the universes.",
        "DESIGN.md 3/C03",
    ),
    "C16": (
        "model_checking",
        "bounded-exhaustive enumeration of grammars x precedence configurations; all states x tokens x rules, every query view compared with every other and with a reference LR(1) closure",
        "Same specification space as C03 (so %nonassoc-erased and precedence-resolved cells are present); for every state every token and rule: state_actions / state_shifts / action / goto / edges / core_reduces / reduce_only_state are compared pairwise, every state must be reachable from the start state, every edge's target kernel must be the advanced item set, and every closed state must equal an independently computed LR(1) closure of its core state, lookahead for lookahead.",
        "Reference closure uses the reference FIRST/nullable (validated in C17). States without any action may answer reduce_only_state either way.",
        "DESIGN.md 3/C16",
    ),
    "C17": (
        "model_checking",
        "bounded-exhaustive enumeration of grammars x cost vectors against fixed-point reference models; watched child processes for termination",
        "Every grammar of the listed universes (all shapes up to 2-3 rules / 2-3 tokens / 6-7 symbols, up to renaming; unproductive, unreachable and self-deriving rules included; quick tier: plus the finite-language three-rule grammars of U(3,2,2,2,6) for the two cost queries) and, for the static analyses, of the families F-chains, F-empty, F-wide (token sets longer than one machine word) and F-refgraph (all 194,481 reference graphs on four rules with up to two ordered references per rule) is pushed through the real FIRST/FOLLOW/nullable/has_path code and, with every cost vector over {1,2}/{1,2,3}, through the real sentence generator (on the grammars of at most 4-5 symbols also with the cost vectors over {100, 200} and all-255: token costs are bytes, their sums are not); every answer for every rule is compared with textbook least fixed points that are themselves cross-checked against brute-force sentential-form / language enumeration on each run. Termination is decided by a watched child process per query.",
        "Claims nothing beyond the universes; trusts the reference fixed points (validated per run against brute force) and the watchdog limits (a timeout is a verdict only after confirmation in isolation).",
        "DESIGN.md 3/C17",
    ),
}

NOT_YET = "no check built; no claim is made"

def main():
    hooks_commit = subprocess.run(
        ["git", "-C", "/repo", "log", "--format=%H", "--grep", "^verif hooks"],
        capture_output=True, text=True).stdout.split()
    checks = []
    for pid in ALL:
        if pid not in CHECKS:
            continue
        cat, tech, text, note, ref = CHECKS[pid]
        checks.append({
            "property_id": pid,
            "quick_cmd": "./check %s quick" % pid,
            "thorough_cmd": "./check %s thorough" % pid,
            "evidence_file": "/verif/evidence/%s.json" % pid,
            "replay_cmd_template": "./check %s quick --replay {path}" % pid,
            "engine": "vcheck",
            "level_claimed": {"category": cat, "text": text, "design_ref": ref},
            "level_note": note,
            "technique": tech,
        })
    m = {
        "version": 1,
        "setup_cmd": "cd /verif && gcc -O2 -shared -fPIC -o shim/getrandom_shim.so shim/getrandom_shim.c && cd harness && CARGO_NET_OFFLINE=true cargo build --release --offline && CARGO_NET_OFFLINE=true cargo build --profile nodebug --offline",
        "hooks": {
            "guard": "--cfg grmtools_verif",
            "enable": "RUSTFLAGS='--cfg grmtools_verif' via /verif/harness/.cargo/config.toml; the harness path-depends on /repo/{cfgrammar,lrtable,lrpar,lrlex} so every check rebuilds them from the working tree with the guard on",
            "baseline_off_cmd": "cd /repo && CARGO_NET_OFFLINE=true cargo nextest run --workspace --no-fail-fast --offline || (cd /repo && CARGO_NET_OFFLINE=true cargo test --workspace --no-fail-fast --offline)",
            "source_commits": hooks_commit,
            "add_only": True,
        },
        "engines": [
            {"name": "vcheck", "path": "/verif/harness/vcheck", "serves_properties": sorted(CHECKS.keys()),
             "kind_free_text": "Rust binary: bounded-exhaustive enumeration of grammars / inputs / configurations / histories, real grmtools code executed on every case, compared with independent reference models in vcore; watched worker sub-processes for cases that may hang or crash"},
            {"name": "vcore", "path": "/verif/harness/vcore", "serves_properties": sorted(CHECKS.keys()),
             "kind_free_text": "library: universes, reference models (analyses, Earley, canonical LR(1), LR driver, repair search, lexer, line/col), evidence + replay writers, worker pool"},
        ],
        "checks": checks,
        "notes": "Every check runs two passes over the code under test: first the quick space with a harness binary built WITHOUT debug assertions and overflow checks (profile nodebug: the subject as users build it; summary folded into the evidence under coverage.pass_without_debug_assertions; not for C13, whose generated modules are compiled once), then the registered tier with debug assertions and overflow checks ON (so that corruption is loud). Driver: ./check <ID> <tier> [--replay FILE]; exit 0 held / 1 VIOLATION / 2 machinery failure. Known findings: /verif/known_findings.json (never written at run time).",
        "not_applicable": [{"property_id": p, "reason": NOT_YET} for p in ALL if p not in CHECKS],
    }
    json.dump(m, open("/verif/MANIFEST.json", "w"), indent=1)
    print("claimed:", sorted(CHECKS.keys()))

main()

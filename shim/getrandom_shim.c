/* LD_PRELOAD shim that owns the process-wide hash seed: when VERIF_HASH_SEED is set, getrandom()
 * returns a pure function of (seed, call counter since the last reset on this thread is NOT used:
 * every call returns the same stream start), so that std's per-thread RandomState keys - which are
 * drawn once per thread - are identical for every freshly spawned thread of every process started
 * with the same seed. Without the variable the real system call is made. */
#define _GNU_SOURCE
#include <stddef.h>
#include <stdint.h>
#include <stdlib.h>
#include <sys/syscall.h>
#include <sys/types.h>
#include <unistd.h>

static uint64_t splitmix(uint64_t *s) {
    uint64_t z = (*s += 0x9e3779b97f4a7c15ULL);
    z = (z ^ (z >> 30)) * 0xbf58476d1ce4e5b9ULL;
    z = (z ^ (z >> 27)) * 0x94d049bb133111ebULL;
    return z ^ (z >> 31);
}

ssize_t getrandom(void *buf, size_t len, unsigned int flags) {
    const char *e = getenv("VERIF_HASH_SEED");
    if (!e) {
        return syscall(SYS_getrandom, buf, len, flags);
    }
    uint64_t s = strtoull(e, NULL, 10) * 0x2545F4914F6CDD1DULL + 0x1234567ULL;
    unsigned char *p = buf;
    size_t i = 0;
    while (i < len) {
        uint64_t r = splitmix(&s);
        for (int k = 0; k < 8 && i < len; k++, i++) {
            p[i] = (unsigned char)(r >> (8 * k));
        }
    }
    return (ssize_t)len;
}
